module verif

go 1.23.0

require (
	github.com/atombender/go-jsonschema v0.0.0
	github.com/go-viper/mapstructure/v2 v2.1.0
	gopkg.in/yaml.v3 v3.0.1
)

require (
	dario.cat/mergo v1.0.1 // indirect
	github.com/goccy/go-yaml v1.16.0 // indirect
	github.com/google/go-cmp v0.7.0 // indirect
	github.com/mitchellh/go-wordwrap v1.0.1 // indirect
	github.com/pkg/errors v0.9.1 // indirect
	github.com/sanity-io/litter v1.5.8 // indirect
	golang.org/x/exp v0.0.0-20250408133849-7e4ce0ab07d0 // indirect
)

replace github.com/atombender/go-jsonschema => /repo

package props

import (
	"fmt"
	"go/types"
	"os"
	"path/filepath"
	"sort"
	"strings"
	"time"

	"verif/internal/genlab"
	"verif/internal/gocheck"
	"verif/internal/space"
	"verif/internal/ws"
)

func init() {
	register("C20", "model_checking", c20)
	ruleText["C20"] = "explicit-state search over generator histories: for each universe of 4 schema files (reference graphs: none, chain, diamond, 2-cycle, shared definition, allOf by reference; layouts: flat, nested directories, same base name in two directories) x mapping (ids to packages / output files / root types, incl. unmapped ids) every history of DoFile events is executed on a fresh real generator: every order of every subset of the files, and each of those followed by one repeated event; " +
		"a state is the canonical form of what is observable (output name -> bytes, error); invariants in every state: (I1) every declaration occurs exactly once over all outputs, (I2) the state equals the composition of the states reached by processing each schema alone (same file, same package, same declaration text, same imports) - the differential oracle 'reached from elsewhere vs from the initial state', (I3) all emitted packages type-check together with cross-package references qualified and imported, (I4) the real CLI, for every argument order, writes exactly the library's bytes to the mapped files / stdout; " +
		"states = distinct observable states, transitions = DoFile events executed"
}

type c20Universe struct {
	name  string
	files []genlab.File // a, b, c, d in this order
	ids   []string
}

func c20File(id string, props J, defs J, extra ...any) string {
	s := J{"$id": id, "type": "object", "properties": props}
	if id == "" {
		delete(s, "$id")
	}
	if defs != nil {
		s["$defs"] = defs
	}
	for i := 0; i+1 < len(extra); i += 2 {
		s[extra[i].(string)] = extra[i+1]
	}
	return space.Text(s)
}

func c20Universes(level int) []c20Universe {
	str, in := J{"type": "string"}, J{"type": "integer"}
	ids := []string{"https://x.test/A", "https://x.test/B", "https://x.test/C", "https://x.test/D"}
	ref := func(f string) J { return J{"$ref": f} }
	mk := func(name string, paths [4]string, props [4]J, defs [4]J, extra [4][]any) c20Universe {
		u := c20Universe{name: name, ids: ids}
		for i := 0; i < 4; i++ {
			u.files = append(u.files, genlab.File{Path: paths[i], Content: c20File(ids[i], props[i], defs[i], extra[i]...)})
		}
		return u
	}
	flat := [4]string{"a.json", "b.json", "c.json", "d.json"}
	nested := [4]string{"a.json", "sub/b.json", "sub/deep/c.json", "other/d.json"}
	var us []c20Universe
	noExtra := [4][]any{}
	ownDefs := [4]J{{"ADef": J{"type": "object", "properties": J{"x": in}}}, {"BDef": J{"type": "string", "minLength": 1}}, {"CDef": J{"type": "object", "properties": J{"y": str}, "required": A{"y"}}}, {"DDef": J{"type": "array", "items": in}}}
	us = append(us, mk("none/flat", flat, [4]J{{"a1": str, "ad": ref("#/$defs/ADef")}, {"b1": in}, {"c1": str, "cd": ref("#/$defs/CDef")}, {"d1": J{"type": "boolean"}}}, ownDefs, noExtra))
	us = append(us, mk("chain/flat", flat, [4]J{{"a1": str, "b": ref("b.json")}, {"b1": in, "c": ref("c.json")}, {"c1": str, "d": ref("d.json")}, {"d1": in}}, ownDefs, noExtra))
	us = append(us, mk("diamond/flat", flat, [4]J{{"b": ref("b.json"), "c": ref("c.json")}, {"b1": in, "d": ref("d.json")}, {"c1": str, "d": ref("d.json")}, {"d1": in}}, [4]J{}, noExtra))
	us = append(us, mk("cycle/flat", flat, [4]J{{"a1": str, "b": ref("b.json")}, {"b1": in, "a": ref("a.json")}, {"c1": str}, {"d1": in, "c": ref("c.json")}}, [4]J{}, noExtra))
	us = append(us, mk("shared-def/flat", flat, [4]J{{"s": ref("d.json#/$defs/Shared")}, {"s": ref("d.json#/$defs/Shared"), "l": J{"type": "array", "items": ref("d.json#/$defs/Shared")}}, {"c1": str}, {"d1": in}},
		[4]J{nil, nil, nil, {"Shared": J{"type": "object", "properties": J{"k": str}, "required": A{"k"}}, "Unused": J{"type": "object", "properties": J{"u": in}}}}, noExtra))
	us = append(us, mk("allof-ref/flat", flat, [4]J{{"c": J{"allOf": A{ref("b.json"), J{"type": "object", "properties": J{"extra": in}}}}}, {"b1": in, "b2": str}, {"c1": str}, {"d1": in}}, [4]J{}, [4][]any{nil, {"required", A{"b1"}}, nil, nil}))
	// a property whose type lives in another document and that carries an object default of its own (the default is written in the
	// referring document, its literal names a type of the other one)
	us = append(us, mk("object-default-across-files/flat", flat, [4]J{{"a1": str, "d": J{"$ref": "b.json#/$defs/Thing", "default": J{"n": 1}}}, {"b1": in, "t": ref("#/$defs/Thing")}, {"c1": str}, {"d1": in}},
		[4]J{nil, {"Thing": J{"type": "object", "properties": J{"n": in}, "required": A{"n"}}}, nil, nil}, noExtra))
	// a definition that is nothing but a reference into another document
	us = append(us, mk("ref-only-definition/flat", flat, [4]J{{"a1": str}, {"b1": in, "t": ref("#/$defs/Thing")}, {"c1": str}, {"d1": in}},
		[4]J{{"Alias": ref("b.json#/$defs/Thing")}, {"Thing": J{"type": "object", "properties": J{"n": in}}}, nil, nil}, noExtra))
	us = append(us, mk("chain/nested", nested, [4]J{{"a1": str, "b": ref("sub/b.json")}, {"b1": in, "c": ref("deep/c.json")}, {"c1": str, "d": ref("../../other/d.json")}, {"d1": in}}, ownDefs, noExtra))
	us = append(us, mk("diamond/nested", nested, [4]J{{"b": ref("./sub/b.json"), "c": ref("sub/deep/c.json")}, {"b1": in, "d": ref("../other/d.json")}, {"c1": str, "d": ref("../../other/d.json")}, {"d1": in}}, [4]J{}, noExtra))
	// same base name in two directories: x/main.json -> ./common.json (x/common.json), y/main.json -> ./common.json (y/common.json)
	us = append(us, mk("same-basename", [4]string{"x/mainx.json", "x/common.json", "y/mainy.json", "y/common.json"},
		[4]J{{"c": ref("./common.json")}, {"fromX": str}, {"c": ref("./common.json")}, {"fromY": in}}, [4]J{}, noExtra))
	// the same, with the file:// scheme (relative)
	us = append(us, mk("same-basename-file-scheme", [4]string{"x/mainx.json", "x/common.json", "y/mainy.json", "y/common.json"},
		[4]J{{"c": ref("file://common.json")}, {"fromX": str}, {"c": ref("file://common.json")}, {"fromY": in}}, [4]J{}, noExtra))
	// file names that differ only in what follows the last dot: service.json / service.yaml (JSON and flow-style YAML), types.v1.json /
	// types.v2.json; the second pair is referenced by the first one without extension (--resolve-extension .json)
	{
		u := mk("same-stem/flat", [4]string{"service.json", "service.yaml", "types.v1.json", "types.v2.json"},
			[4]J{{"name": str, "t": ref("types.v1")}, {"replicas": in, "t": ref("types.v2")}, {"one": str}, {"two": in}}, ownDefs, noExtra)
		us = append(us, u)
	}
	common := func(field string, t J) J {
		return J{"Common": J{"type": "object", "properties": J{field: t}, "required": A{field}}}
	}
	us = append(us, mk("same-def-name/flat", flat,
		[4]J{{"a1": str, "viaAllOf": J{"allOf": A{ref("#/$defs/Common"), J{"type": "object", "properties": J{"ax": in}}}}},
			{"b1": in, "viaAllOf": J{"allOf": A{ref("#/$defs/Common"), J{"type": "object", "properties": J{"bx": str}}}}},
			{"c1": str, "viaAnyOf": J{"anyOf": A{ref("#/$defs/Common"), J{"type": "object", "properties": J{"cx": in}, "required": A{"cx"}}}}},
			{"d1": in, "plain": ref("#/$defs/Common")}},
		[4]J{common("fromA", str), common("fromB", in), common("fromC", J{"type": "boolean"}), common("fromD", J{"type": "number"})}, noExtra))
	// the same universe without any $id (all documents then share the empty id)
	noID := mk("same-def-name/no-id", flat,
		[4]J{{"a1": str, "viaAllOf": J{"allOf": A{ref("#/$defs/Common"), J{"type": "object", "properties": J{"ax": in}}}}},
			{"b1": in, "viaAllOf": J{"allOf": A{ref("#/$defs/Common"), J{"type": "object", "properties": J{"bx": str}}}}},
			{"c1": str, "viaAnyOf": J{"anyOf": A{ref("#/$defs/Common"), J{"type": "object", "properties": J{"cx": in}, "required": A{"cx"}}}}},
			{"d1": in, "plain": ref("#/$defs/Common")}},
		[4]J{common("fromA", str), common("fromB", in), common("fromC", J{"type": "boolean"}), common("fromD", J{"type": "number"})}, noExtra)
	noID.ids = []string{"", "", "", ""}
	for i := range noID.files {
		noID.files[i].Content = strings.Replace(noID.files[i].Content, fmt.Sprintf(`"$id":%q,`, ids[i]), "", 1)
	}
	us = append(us, noID)
	// three documents with ids and one without: under mapping flags that do not mention it, the id-less document takes the defaults
	{
		u := mk("none/flat/third-without-id", flat, [4]J{{"a1": str, "ad": ref("#/$defs/ADef")}, {"b1": in}, {"c1": str, "cd": ref("#/$defs/CDef")}, {"d1": J{"type": "boolean"}}}, ownDefs, noExtra)
		u.ids = []string{ids[0], ids[1], "", ids[3]}
		u.files[2].Content = strings.Replace(u.files[2].Content, fmt.Sprintf(`"$id":%q,`, ids[2]), "", 1)
		us = append(us, u)
	}
	if level >= 1 {
		us = append(us, mk("star/flat", flat, [4]J{{"b": ref("b.json"), "c": ref("c.json"), "d": ref("d.json")}, {"b1": in}, {"c1": str}, {"d1": in}}, ownDefs, noExtra))
		us = append(us, mk("defs-chain/flat", flat, [4]J{{"x": ref("b.json#/$defs/BDef")}, {"y": ref("c.json#/$defs/CDef")}, {"z": ref("d.json#/$defs/DDef")}, {"d1": in}}, ownDefs, noExtra))
		us = append(us, mk("3cycle/flat", flat, [4]J{{"b": ref("b.json")}, {"c": ref("c.json")}, {"a": ref("a.json")}, {"d1": in}}, [4]J{}, noExtra))
		us = append(us, mk("anyof-ref/flat", flat, [4]J{{"c": J{"anyOf": A{ref("b.json"), ref("c.json")}}}, {"b1": in}, {"c1": str}, {"d1": in}}, [4]J{}, [4][]any{nil, {"required", A{"b1"}}, {"required", A{"c1"}}, nil}))
		us = append(us, mk("items-ref/nested", nested, [4]J{{"l": J{"type": "array", "items": ref("sub/b.json")}}, {"m": J{"type": "object", "additionalProperties": ref("deep/c.json")}}, {"c1": str}, {"d1": in}}, ownDefs, noExtra))
	}
	return us
}

type c20Mapping struct {
	name string
	cfg  func(ids []string) genlab.Cfg
}

func c20Mappings(level int) []c20Mapping {
	base := func() genlab.Cfg { return genlab.Cfg{Package: "example.com/m/dflt", ResolveExt: []string{".json"}} }
	ms := []c20Mapping{
		{"defaults-stdout", func(ids []string) genlab.Cfg { return base() }},
		{"two-packages", func(ids []string) genlab.Cfg {
			c := base()
			c.Mappings = []genlab.Mapping{{ID: ids[0], Package: "example.com/m/p", Output: "p/x.go"}, {ID: ids[1], Package: "example.com/m/p", Output: "p/x.go"},
				{ID: ids[2], Package: "example.com/m/q", Output: "q/z.go"}, {ID: ids[3], Package: "example.com/m/q", Output: "q/z.go"}}
			return c
		}},
		{"own-files+root-type+unmapped", func(ids []string) genlab.Cfg {
			c := base()
			c.Output = "dflt/out.go"
			c.Mappings = []genlab.Mapping{{ID: ids[0], Package: "example.com/m/p", Output: "p/a.go", Root: "RootOfA"}, {ID: ids[1], Package: "example.com/m/p", Output: "p/b.go"}, {ID: ids[3], Package: "example.com/m/q", Output: "q/d.go"}}
			return c
		}},
	}
	ms = append(ms, c20Mapping{"shared-after-three", func(ids []string) genlab.Cfg {
		c := base()
		c.Mappings = []genlab.Mapping{{ID: ids[0], Package: "example.com/m/p", Output: "p/x.go"}, {ID: ids[1], Package: "example.com/m/p", Output: "p/y.go"},
			{ID: ids[2], Package: "example.com/m/p", Output: "p/z.go"}, {ID: ids[3], Package: "example.com/m/p", Output: "p/x.go"}}
		return c
	}})
	ms = append(ms, c20Mapping{"same-last-element", func(ids []string) genlab.Cfg {
		c := base()
		c.Mappings = []genlab.Mapping{{ID: ids[0], Package: "example.com/m/a/types", Output: "a/types/x.go"}, {ID: ids[1], Package: "example.com/m/a/types", Output: "a/types/y.go"},
			{ID: ids[2], Package: "example.com/m/b/types", Output: "b/types/z.go"}, {ID: ids[3], Package: "example.com/m/b/types", Output: "b/types/w.go"}}
		return c
	}})
	// one output file named by two spellings of its path: both schemas' code must land in it
	ms = append(ms, c20Mapping{"same-output-two-spellings", func(ids []string) genlab.Cfg {
		c := base()
		c.Mappings = []genlab.Mapping{{ID: ids[0], Package: "example.com/m/p", Output: "p/x.go"}, {ID: ids[1], Package: "example.com/m/p", Output: "./p/x.go"},
			{ID: ids[2], Package: "example.com/m/q", Output: "q//z.go"}, {ID: ids[3], Package: "example.com/m/q", Output: "q/z.go"}}
		return c
	}})
	// a third package that imports two packages whose paths end in the same element
	ms = append(ms, c20Mapping{"two-same-last-elements-imported-by-third", func(ids []string) genlab.Cfg {
		c := base()
		c.Mappings = []genlab.Mapping{{ID: ids[0], Package: "example.com/m/main", Output: "main/a.go"}, {ID: ids[1], Package: "example.com/m/one/common", Output: "one/common/b.go"},
			{ID: ids[2], Package: "example.com/m/two/common", Output: "two/common/c.go"}, {ID: ids[3], Package: "example.com/m/two/common", Output: "two/common/d.go"}}
		return c
	}})
	// the passes that run once per generator (formatters) meet several output files: every file needs its own imports
	ms = append(ms, c20Mapping{"own-files+extra-imports", func(ids []string) genlab.Cfg {
		c := base()
		c.ExtraImports = true
		c.Mappings = []genlab.Mapping{{ID: ids[0], Package: "example.com/m/p", Output: "p/a.go"}, {ID: ids[1], Package: "example.com/m/p", Output: "p/b.go"},
			{ID: ids[2], Package: "example.com/m/q", Output: "q/c.go"}, {ID: ids[3], Package: "example.com/m/q", Output: "q/d.go"}}
		return c
	}})
	// mappings that name only an output file (or an output file and a root type) for an id: the package is the default one
	ms = append(ms, c20Mapping{"output-only-mappings", func(ids []string) genlab.Cfg {
		c := base()
		c.Output = "dflt/out.go"
		c.Mappings = []genlab.Mapping{{ID: ids[0], Output: "dflt/a.go"}, {ID: ids[1], Output: "dflt/b.go", Root: "RootOfB"}}
		return c
	}})
	// no default package at all (-p is not given): every id gets its package from --schema-package
	ms = append(ms, c20Mapping{"no-default-package", func(ids []string) genlab.Cfg {
		c := base()
		c.Package = ""
		for i, id := range ids {
			p := string(rune('p' + i/2))
			c.Mappings = append(c.Mappings, genlab.Mapping{ID: id, Package: "example.com/m/" + p, Output: fmt.Sprintf("%s/f%d.go", p, i)})
		}
		return c
	}})
	// an id that is mapped to a package but to no output file is, by the tool's documented rule, not emitted at all; two other ids
	// of the same package have files of their own (the third must not turn up in either of them)
	ms = append(ms, c20Mapping{"package-only-for-third", func(ids []string) genlab.Cfg {
		c := base()
		c.Mappings = []genlab.Mapping{{ID: ids[0], Package: "example.com/m/p", Output: "p/a.go"}, {ID: ids[1], Package: "example.com/m/p", Output: "p/b.go"},
			{ID: ids[2], Package: "example.com/m/p"}, {ID: ids[3], Package: "example.com/m/q", Output: "q/d.go"}}
		return c
	}})
	if level >= 1 {
		ms = append(ms,
			c20Mapping{"one-file", func(ids []string) genlab.Cfg { c := base(); c.Output = "all/one.go"; return c }},
			c20Mapping{"each-own-package", func(ids []string) genlab.Cfg {
				c := base()
				for i, id := range ids {
					p := string(rune('p' + i))
					c.Mappings = append(c.Mappings, genlab.Mapping{ID: id, Package: "example.com/m/" + p, Output: p + "/gen.go"})
				}
				return c
			}},
			c20Mapping{"stdout-for-one", func(ids []string) genlab.Cfg {
				c := base()
				c.Output = "d/out.go"
				c.Mappings = []genlab.Mapping{{ID: ids[2], Package: "example.com/m/dflt", Output: "-"}}
				return c
			}},
		)
	}
	return ms
}

// obsState is the observable state after a history.
type obsState struct {
	err   string
	files map[string][]decl // output name -> declarations (incl. imports and the package clause as a pseudo-declaration)
	raw   map[string]string
}

func observe(r *genlab.Resp) (obsState, string) {
	st := obsState{files: map[string][]decl{}, raw: map[string]string{}}
	switch {
	case r.Crash != "" || r.Hang:
		st.err = "CRASH/HANG " + firstLine(r.Crash)
	case r.Res.Panic != "":
		st.err = "PANIC " + firstLine(r.Res.Panic)
	case r.Res.Err != "":
		st.err = "ERROR " + r.Res.Err
	}
	for n, src := range r.Res.Outputs {
		st.raw[n] = src
		ds, err := parseDecls(src)
		if err != nil {
			return st, fmt.Sprintf("output %s does not parse: %v", n, err)
		}
		pk := packageClause(src)
		ds = append(ds, decl{"package", pk, pk})
		st.files[n] = ds
	}
	return st, ""
}

func packageClause(src string) string {
	for _, l := range strings.Split(src, "\n") {
		if strings.HasPrefix(l, "package ") {
			return strings.TrimSpace(strings.TrimPrefix(l, "package "))
		}
	}
	return "?"
}

func (s obsState) key() string {
	var sb strings.Builder
	sb.WriteString(s.err + "\n")
	names := make([]string, 0, len(s.raw))
	for n := range s.raw {
		names = append(names, n)
	}
	sort.Strings(names)
	for _, n := range names {
		sb.WriteString("=== " + n + "\n" + s.raw[n])
	}
	return sb.String()
}

// declKeys returns file|kind|name -> text.
func (s obsState) declKeys() map[string]string {
	m := map[string]string{}
	for f, ds := range s.files {
		for _, d := range ds {
			m[f+"|"+d.kind+"|"+d.name] = d.text
		}
	}
	return m
}

// c20MappingFits: a reference into a schema that is mapped to "no output" cannot build (that is what the rule means), so the
// mapping with such an id is combined with the universes without references only.
func c20MappingFits(u c20Universe, mp c20Mapping) bool {
	return mp.name != "package-only-for-third" || strings.HasPrefix(u.name, "none/")
}

func c20(ctx *Ctx) {
	unis := c20Universes(ctx.Level)
	maps := c20Mappings(ctx.Level)
	exportList := filepath.Join(ws.Root(), "exports.txt")
	chk, err := gocheck.Load(exportList)
	if err != nil {
		harnessFail("export list: %v", err)
	}
	states, transitions := map[string]bool{}, 0
	validated := 0
	for _, u := range unis {
		for _, mp := range maps {
			if u.name == "same-def-name/no-id" && mp.name != "defaults-stdout" && mp.name != "one-file" {
				continue // without ids only the defaults apply
			}
			if strings.HasSuffix(u.name, "/third-without-id") && mp.name != "defaults-stdout" && mp.name != "one-file" && mp.name != "own-files+root-type+unmapped" && mp.name != "output-only-mappings" {
				continue // only the mappings that do not name the third document
			}
			if !c20MappingFits(u, mp) {
				continue
			}
			if strings.HasPrefix(u.name, "same-basename") && mp.name != "two-packages" && mp.name != "each-own-package" {
				// x/common.json and y/common.json both yield the type name Common: they must live in different packages
				// (same type name in one package: listed finding SAME_TYPE_NAME_DROPPED, exercised below)
				continue
			}
			cfg := mp.cfg(u.ids)
			name := u.name + "/" + mp.name
			// all histories: ordered subsets, plus one repeated event appended
			var hists [][]int
			var rec func(cur []int, used int)
			rec = func(cur []int, used int) {
				hists = append(hists, append([]int(nil), cur...))
				for _, r := range cur {
					if len(cur) >= 1 {
						hists = append(hists, append(append([]int(nil), cur...), r))
					}
				}
				for i := 0; i < 4; i++ {
					if used&(1<<i) == 0 {
						rec(append(cur, i), used|1<<i)
					}
				}
			}
			rec(nil, 0)
			// dedupe histories
			seenH := map[string]bool{}
			var jobs []genlab.Job
			var hs [][]int
			for _, h := range hists {
				k := fmt.Sprint(h)
				if seenH[k] {
					continue
				}
				seenH[k] = true
				var args []string
				for _, i := range h {
					args = append(args, u.files[i].Path)
				}
				gc := genlab.Case{ID: "C20/" + name + "/" + k, Files: u.files, Args: args, Cfg: cfg}
				jobs = append(jobs, genlab.Job{Op: "gen", Case: &gc, KeepOutputs: true})
				hs = append(hs, h)
			}
			resps, err := ctx.Pool.RunAll(jobs)
			if err != nil {
				harnessFail("pool: %v", err)
			}
			obs := map[string]obsState{}
			for i, r := range resps {
				st, perr := observe(r)
				if perr != "" {
					ctx.Run.Count("states_with_unparsable_output(C01)", 1)
				}
				obs[fmt.Sprint(hs[i])] = st
				states[name+"\n"+st.key()] = true
				transitions += len(hs[i])
			}
			sameDef := strings.HasPrefix(u.name, "same-def-name/")
			for i, h := range hs {
				k := fmt.Sprint(h)
				st := obs[k]
				validated++
				ctx.Run.Eval(name+"|"+k, len(h) > 0)
				if i == 3 || (len(h) == 4 && len(ctx.Run.ListedRules()) >= 0 && i%97 == 0) {
					var names []string
					for _, j := range h {
						names = append(names, u.files[j].Path)
					}
					ctx.Run.Sample(map[string]any{"universe": u.name, "mapping": mp.name, "history": names, "outputs": outputsSummary(st), "error": st.err})
				}
				replay := map[string]any{"kind": "gen", "files": u.files, "args": jobs[i].Case.Args, "cfg": cfg, "history": h}
				if st.err != "" {
					// an error state: every single-file state must then also be an error for one of the files, otherwise the
					// failure depends on the history
					culprit := false
					for _, j := range h {
						if obs[fmt.Sprint([]int{j})].err != "" {
							culprit = true
						}
					}
					if !culprit {
						ctx.Run.Violation("history-dependent-error", fmt.Sprintf("C20/%s: history %v fails (%s) although every file of it is accepted when processed alone", name, h, st.err), replay)
					}
					continue
				}
				// (I2) composition of the alone-states
				want := map[string]string{}
				wantFrom := map[string]int{}
				skip := false
				for _, j := range h {
					alone := obs[fmt.Sprint([]int{j})]
					if alone.err != "" {
						skip = true
						break
					}
					for dk, text := range alone.declKeys() {
						if prev, ok := want[dk]; ok && prev != text {
							skip = true // two files declare the same name differently: the generator must rename one of them
						}
						want[dk] = text
						wantFrom[dk] = j
					}
				}
				if skip {
					allOK := true
					for _, j := range h {
						if obs[fmt.Sprint([]int{j})].err != "" {
							allOK = false
						}
					}
					if allOK {
						repeated := len(h) >= 2 && func() bool {
							for _, x := range h[:len(h)-1] {
								if x == h[len(h)-1] {
									return true
								}
							}
							return false
						}()
						msg := c20ComposeRenamed(h, obs, st)
						if msg != "" && sameDef && repeated && strings.Contains(msg, "number of declarations") && ctx.Run.Listed("SAME_DEF_NAME_TWO_FILES_ONE_PACKAGE") {
							ctx.Run.Known("SAME_DEF_NAME_TWO_FILES_ONE_PACKAGE", fmt.Sprintf("C20/%s: history %v (a file processed twice): %s", name, h, msg), replay)
						} else if msg != "" {
							ctx.Run.Violation("composition-up-to-renaming", fmt.Sprintf("C20/%s: history %v: the state is not the composition of the single-file states, even up to a consistent renaming of the colliding type names: %s", name, h, msg), replay)
						}
						ctx.Run.Count("states_compared_up_to_renaming", 1)
					}
					continue
				}
				got := st.declKeys()
				if msg := c20Compare(want, got); msg != "" {
					ctx.Run.Violation("composition:"+relSig(msg), fmt.Sprintf("C20/%s: history %v: %s", name, h, msg), replay)
					continue
				}
				// (I1) exactly once over all outputs
				count := map[string][]string{}
				for f, ds := range st.files {
					for _, d := range ds {
						if d.kind == "type" || d.kind == "func" || d.kind == "const" || d.kind == "var" {
							count[d.kind+" "+d.name+" in package "+packageOfFile(st, f)] = append(count[d.kind+" "+d.name+" in package "+packageOfFile(st, f)], f)
						}
					}
				}
				for dn, fs := range count {
					if len(fs) > 1 && sameDef && strings.Contains(dn, "Common") && ctx.Run.Listed("SAME_DEF_NAME_TWO_FILES_ONE_PACKAGE") {
						ctx.Run.Known("SAME_DEF_NAME_TWO_FILES_ONE_PACKAGE", fmt.Sprintf("C20/%s: history %v: %s is emitted in %v", name, h, dn, fs), replay)
						break
					}
					if len(fs) > 1 {
						ctx.Run.Violation("declared-twice", fmt.Sprintf("C20/%s: history %v: %s is emitted %d times (%v)", name, h, dn, len(fs), fs), replay)
						break
					}
				}
				// (I3) all packages type-check together (only for maximal histories and singletons: the check is the same function of the state)
				if len(h) == 1 || len(h) == 4 {
					if msg := c20TypeCheck(chk, cfg, st); msg != "" && strings.Contains(msg, "import each other cyclically") && strings.Contains(u.name, "cycle") {
						ctx.Run.Count("states_with_import_cycle_forced_by_the_mapping(not judged)", 1) // a reference cycle split over two packages cannot build in Go
					} else if msg != "" && strings.HasPrefix(u.name, "ref-only-definition") && strings.Contains(msg, "imported and not used") && ctx.Run.Listed("REF_ONLY_DEFINITION_UNUSED_IMPORT") {
						ctx.Run.Known("REF_ONLY_DEFINITION_UNUSED_IMPORT", fmt.Sprintf("C20/%s: history %v: %s", name, h, trunc(msg, 200)), replay)
					} else if msg != "" && (strings.HasPrefix(u.name, "allof-ref") || strings.HasPrefix(u.name, "anyof-ref")) && strings.Contains(msg, "imported and not used") && ctx.Run.Listed("CROSS_PACKAGE_COMPOSITE_UNUSED_IMPORT") {
						ctx.Run.Known("CROSS_PACKAGE_COMPOSITE_UNUSED_IMPORT", fmt.Sprintf("C20/%s: history %v: %s", name, h, trunc(msg, 200)), replay)
					} else if msg != "" && mp.name == "two-same-last-elements-imported-by-third" && strings.Contains(msg, "common redeclared in this block") && ctx.Run.Listed("IMPORT_ALIAS_COLLISION") {
						ctx.Run.Known("IMPORT_ALIAS_COLLISION", fmt.Sprintf("C20/%s: history %v: %s", name, h, trunc(msg, 200)), replay)
					} else if msg != "" && sameDef && strings.Contains(msg, "Common redeclared") && ctx.Run.Listed("SAME_DEF_NAME_TWO_FILES_ONE_PACKAGE") {
						ctx.Run.Known("SAME_DEF_NAME_TWO_FILES_ONE_PACKAGE", fmt.Sprintf("C20/%s: history %v: %s", name, h, trunc(msg, 200)), replay)
					} else if msg != "" {
						ctx.Run.Violation("packages-do-not-build:"+normCompileMsg(msg), fmt.Sprintf("C20/%s: history %v: %s", name, h, msg), replay)
					}
				}
			}
			c20CLI(ctx, u, name, cfg, obs)
		}
	}
	c20SameName(ctx)
	ctx.Run.Cov["states"] = len(states)
	ctx.Run.Cov["transitions"] = transitions
	ctx.Run.Cov["traces_validated_against_impl"] = validated
	ctx.Run.Cov["universes"] = len(unis)
	ctx.Run.Cov["mappings"] = len(maps)
	ctx.Run.Assume("root type and definition names are distinct across the files of a universe (two schemas whose types get the same name in one package are a separate listed finding)",
		"every state is reached by replaying its history on a fresh generator (live generators cannot be cloned)", "trusted: go/parser, go/types, export data")
}

func outputsSummary(st obsState) map[string]int {
	m := map[string]int{}
	for f, ds := range st.files {
		m[f] = len(ds)
	}
	return m
}

func packageOfFile(st obsState, f string) string {
	for _, d := range st.files[f] {
		if d.kind == "package" {
			return d.name
		}
	}
	return "?"
}

func c20Compare(want, got map[string]string) string {
	var keys []string
	for k := range want {
		keys = append(keys, k)
	}
	for k := range got {
		if _, ok := want[k]; !ok {
			keys = append(keys, k)
		}
	}
	sort.Strings(keys)
	for _, k := range keys {
		w, okW := want[k]
		g, okG := got[k]
		switch {
		case !okG:
			return fmt.Sprintf("declaration missing: %s (present when the schema is processed alone)", k)
		case !okW:
			return fmt.Sprintf("declaration unexpected: %s (absent from every alone-state)", k)
		case w != g:
			return fmt.Sprintf("declaration differs from the alone-state: %s: %q vs %q", k, trunc(w, 200), trunc(g, 200))
		}
	}
	return ""
}

// c20TypeCheck type-checks the emitted packages together, dependencies first.
func c20TypeCheck(chk *gocheck.Checker, cfg genlab.Cfg, st obsState) string {
	// group files by package path: the mapping tells the qualified name per output
	pkgOf := map[string]string{}
	out := cfg.Output
	if out == "" {
		out = "-"
	}
	pkgOf[out] = cfg.Package
	for _, m := range cfg.Mappings {
		if m.Output != "" {
			pkgOf[m.Output] = m.Package
			if m.Package == "" {
				pkgOf[m.Output] = cfg.Package
			}
		}
	}
	byPkg := map[string]map[string]string{}
	for f, src := range st.raw {
		p, ok := pkgOf[f]
		if !ok {
			return fmt.Sprintf("output file %q is not the target of any mapping", f)
		}
		if byPkg[p] == nil {
			byPkg[p] = map[string]string{}
		}
		byPkg[p][f] = src
	}
	done := map[string]*types.Package{}
	chk.SetExtra(done)
	defer chk.SetExtra(map[string]*types.Package{})
	for round := 0; round <= len(byPkg); round++ {
		progress := false
		for p, files := range byPkg {
			if _, ok := done[p]; ok {
				continue
			}
			// ready when all imported generated packages are done
			ready := true
			for _, src := range files {
				for q := range byPkg {
					if q != p && strings.Contains(src, `"`+q+`"`) {
						if _, ok := done[q]; !ok {
							ready = false
						}
					}
				}
			}
			if !ready {
				continue
			}
			d, tp := chk.CheckPkg(files, p)
			if !d.OK() {
				return fmt.Sprintf("package %s does not type-check: %s", p, d.Summary())
			}
			done[p] = tp
			progress = true
		}
		if !progress {
			break
		}
	}
	if len(done) != len(byPkg) {
		return "emitted packages import each other cyclically"
	}
	return ""
}

func permutations4() [][]int {
	var out [][]int
	var rec func(cur []int, used int)
	rec = func(cur []int, used int) {
		if len(cur) == 4 {
			out = append(out, append([]int(nil), cur...))
			return
		}
		for i := 0; i < 4; i++ {
			if used&(1<<i) == 0 {
				rec(append(cur, i), used|1<<i)
			}
		}
	}
	rec(nil, 0)
	return out
}

// c20CLI: (I4) the real binary, in every argument order, writes exactly the library state's bytes.
func c20CLI(ctx *Ctx, u c20Universe, name string, cfg genlab.Cfg, obs map[string]obsState) {
	bin, err := ws.CLI()
	if err != nil {
		harnessFail("cannot build the CLI: %v", err)
	}
	perms := permutations4()
	if ctx.Level == 0 {
		perms = [][]int{perms[0], perms[5], perms[9], perms[14], perms[18], perms[23]}
	}
	for pi, pm := range perms {
		d, _ := os.MkdirTemp(ws.Dir("c20cli"), "r")
		genlab.Materialise(d, u.files)
		args := cfg.Flags()
		for _, i := range pm {
			args = append(args, u.files[i].Path)
		}
		st := obs[fmt.Sprint(pm)]
		if pi%2 == 1 {
			// every other order regenerates in place: the expected output files already exist and are longer than what will be written
			for f := range st.raw {
				if f != "-" {
					os.MkdirAll(filepath.Dir(filepath.Join(d, f)), 0o755)
					os.WriteFile(filepath.Join(d, f), []byte(strings.Repeat("// stale line of an earlier, longer output\n", 4000)), 0o644)
				}
			}
		}
		r := genlab.RunCLI(bin, d, args, "", 60*time.Second)
		ctx.Run.Eval("cli|"+name+"|"+fmt.Sprint(pm), true)
		ctx.Run.Count("cli_argument_orders", 1)
		replay := map[string]any{"kind": "cli", "files": u.files, "args": args}
		if (st.err == "") != (r.Exit == 0) {
			ctx.Run.Violation("cli-status", fmt.Sprintf("C20/%s: CLI with argument order %v exits %d, library state error=%q", name, pm, r.Exit, st.err), replay)
			os.RemoveAll(d)
			continue
		}
		if st.err == "" {
			for f, src := range st.raw {
				got := r.Stdout
				if f != "-" {
					got = r.Files[f]
				}
				if got != src {
					ctx.Run.Violation("cli-bytes", fmt.Sprintf("C20/%s: CLI with argument order %v: output %q differs from the library state: %s", name, pm, f, firstDiffLine(src, got)), replay)
					break
				}
			}
			for f := range r.Files {
				isInput := false
				for _, in := range u.files {
					if in.Path == f {
						isInput = true
					}
				}
				if _, ok := st.raw[f]; !ok && !isInput {
					ctx.Run.Violation("cli-extra-file", fmt.Sprintf("C20/%s: CLI with argument order %v wrote %q, which is not part of the library state", name, pm, f), replay)
				}
			}
			if _, toStdout := st.raw["-"]; !toStdout && r.Stdout != "" {
				ctx.Run.Violation("cli-stdout", fmt.Sprintf("C20/%s: CLI wrote to stdout although no schema is mapped to '-'", name), replay)
			}
		}
		os.RemoveAll(d)
	}
}

// c20SameName: two schemas whose root types get the same Go name in one package.
func c20SameName(ctx *Ctx) {
	str, in := J{"type": "string"}, J{"type": "integer"}
	files := []genlab.File{
		{Path: "x/common.json", Content: space.Text(J{"$id": "https://x.test/X", "type": "object", "properties": J{"fromX": str}})},
		{Path: "y/common.json", Content: space.Text(J{"$id": "https://x.test/Y", "type": "object", "properties": J{"fromY": in}})},
	}
	for _, order := range [][]string{{"x/common.json", "y/common.json"}, {"y/common.json", "x/common.json"}} {
		gc := genlab.Case{ID: "C20/same-type-name", Files: files, Args: order, Cfg: genlab.Cfg{Package: "one", ResolveExt: []string{".json"}}}
		resps, err := ctx.Pool.RunAll([]genlab.Job{{Op: "gen", Case: &gc, KeepOutputs: true}})
		if err != nil {
			harnessFail("pool: %v", err)
		}
		r := resps[0]
		ctx.Run.Eval("same-name|"+strings.Join(order, ","), true)
		replay := map[string]any{"kind": "gen", "files": files, "args": order, "cfg": gc.Cfg}
		if r.Res.Err != "" || r.Res.Panic != "" || r.Crash != "" {
			continue // rejected loudly: fine
		}
		src := r.Res.Outputs["-"]
		hasX, hasY := strings.Contains(src, "FromX"), strings.Contains(src, "FromY")
		if hasX && hasY {
			continue
		}
		if hasX != hasY {
			ctx.Run.Known("SAME_TYPE_NAME_DROPPED", fmt.Sprintf("DoFile order %v: only one of the two schemas is emitted (fromX=%v fromY=%v), exit status 0", order, hasX, hasY), replay)
		} else {
			ctx.Run.Violation("same-type-name", fmt.Sprintf("DoFile order %v: neither schema is emitted", order), replay)
		}
	}
}

// c20ComposeRenamed: the files of history h declare some names differently (same definition name in two files mapped to
// one package). The joint state must then equal the union of the single-file states up to one consistent renaming of
// identifiers: the later file's colliding declarations are given fresh names first, then the bijection is searched.
func c20ComposeRenamed(h []int, obs map[string]obsState, joint obsState) string {
	type dk struct{ file, kind, name string }
	perFile := map[string][]decl{} // output file -> declarations of the expected union
	seenText := map[dk]string{}
	done := map[int]bool{}
	for _, j := range h {
		if done[j] {
			continue
		}
		done[j] = true
		alone := obs[fmt.Sprint([]int{j})]
		for f, ds := range alone.files {
			// names of this file's declarations that collide with an earlier, different declaration
			ren := map[string]string{}
			for _, d := range ds {
				if prev, ok := seenText[dk{f, d.kind, d.name}]; ok && prev != d.text && (d.kind == "type" || d.kind == "const" || d.kind == "var") {
					ren[d.name] = fmt.Sprintf("H%dx%s", j, d.name)
				}
			}
			for _, d := range ds {
				if d.kind == "package" {
					continue
				}
				nd := decl{d.kind, d.name, d.text}
				if len(ren) > 0 {
					nd.text = renameWords(d.text, ren)
					if r, ok := ren[d.name]; ok {
						nd.name = r
					} else if i := strings.IndexByte(d.name, '.'); i > 0 {
						if r, ok := ren[d.name[:i]]; ok {
							nd.name = r + d.name[i:]
						}
					}
				}
				if prev, ok := seenText[dk{f, nd.kind, nd.name}]; ok && prev == nd.text {
					continue // shared (identical) declaration
				}
				seenText[dk{f, nd.kind, nd.name}] = nd.text
				perFile[f] = append(perFile[f], nd)
			}
		}
	}
	render := func(ds []decl) string {
		var sb strings.Builder
		sb.WriteString("package p\n\n")
		for _, d := range ds {
			switch d.kind {
			case "type", "const", "var":
				sb.WriteString(d.kind + " " + d.text + "\n\n")
			case "func":
				sb.WriteString(d.text + "\n\n")
			}
		}
		return sb.String()
	}
	for f, want := range perFile {
		got, ok := joint.files[f]
		if !ok {
			return "output " + f + " is missing"
		}
		var gd []decl
		for _, d := range got {
			if d.kind != "package" {
				gd = append(gd, d)
			}
		}
		wi, gi := declSet(want, "import"), declSet(gd, "import")
		for k := range wi {
			if _, ok := gi[k]; !ok {
				return "output " + f + ": import " + k + " is missing"
			}
		}
		for k := range gi {
			if _, ok := wi[k]; !ok {
				return "output " + f + ": unexpected import " + k
			}
		}
		if msg := relRename(render(want), render(gd), true); msg != "" {
			return "output " + f + ": " + msg
		}
	}
	for f := range joint.files {
		if _, ok := perFile[f]; !ok {
			return "unexpected output " + f
		}
	}
	return ""
}

package props

import (
	"fmt"

	"verif/internal/genlab"
	"verif/internal/space"
)

type J = space.J
type A = space.A

// SCase is a single-file case: schema s.json, root type S, package s.
type SCase struct {
	ID     string
	Schema J
	Cfg    genlab.Cfg
	Extra  []genlab.File // sibling files
	Axes   map[string]string
	Main   string // path of the main schema file (default s.json)
}

// MainPath returns the path of the main schema file.
func (s SCase) MainPath() string {
	if s.Main != "" {
		return s.Main
	}
	return "s.json"
}

func baseCfg() genlab.Cfg {
	return genlab.Cfg{Package: "s", ResolveExt: []string{".json"}}
}

// Case materialises the generator case.
func (s SCase) Case() genlab.Case {
	files := []genlab.File{{Path: s.MainPath(), Content: space.Text(s.Schema)}}
	files = append(files, s.Extra...)
	cfg := s.Cfg
	if cfg.Package == "" {
		cfg.Package = "s"
	}
	if cfg.ResolveExt == nil {
		cfg.ResolveExt = []string{".json"}
	}
	return genlab.Case{ID: s.ID, Files: files, Args: []string{s.MainPath()}, Cfg: cfg}
}

// OptSet is a named option set.
type OptSet struct {
	Name string
	Mod  func(*genlab.Cfg)
}

func optSets(level int) []OptSet {
	os := []OptSet{
		{"default", func(c *genlab.Cfg) {}},
		{"extra-imports", func(c *genlab.Cfg) { c.ExtraImports = true }},
		{"only-models", func(c *genlab.Cfg) { c.OnlyModels = true }},
		{"min-sized-ints", func(c *genlab.Cfg) { c.MinSizedInts = true }},
	}
	if level >= 1 {
		os = append(os,
			OptSet{"tags-json", func(c *genlab.Cfg) { c.Tags = []string{"json"} }},
			OptSet{"tags-yaml+extra", func(c *genlab.Cfg) { c.Tags = []string{"yaml"}; c.ExtraImports = true }},
			OptSet{"caps", func(c *genlab.Cfg) { c.Caps = []string{"ID", "URL"} }},
			OptSet{"title+extra+sized", func(c *genlab.Cfg) {
				c.StructNameFromTitle = true
				c.ExtraImports = true
				c.MinSizedInts = true
			}},
		)
	}
	return os
}

// leafFamily enumerates leaf × nullability × required × default × position.
func leafFamily(level int) []SCase {
	var out []SCase
	for _, pos := range space.Positions(level) {
		for _, l := range space.Leaves(level) {
			nulls := []int{-1}
			if l.Nullable {
				nulls = []int{-1, 0}
				if level >= 1 {
					nulls = []int{-1, 0, 1}
				}
			}
			for _, nu := range nulls {
				for _, required := range []bool{true, false} {
					if pos.Name == "root" && !required {
						continue
					}
					defs := []bool{false}
					if l.Default != nil {
						defs = []bool{false, true}
					}
					for _, d := range defs {
						s := space.Clone(l.S)
						if nu >= 0 {
							s = space.MakeNullable(s, nu)
						}
						if d {
							s["default"] = l.Default
						}
						id := fmt.Sprintf("leaf/%s/%s/null=%d/req=%v/def=%v", pos.Name, l.Name, nu, required, d)
						root, ok := wrapLeaf(pos, l, s, required)
						if !ok {
							continue
						}
						out = append(out, SCase{
							ID: id, Schema: root, Cfg: baseCfg(),
							Axes: map[string]string{"pos": pos.Name, "leaf": l.Name, "kind": l.Kind, "format": l.Format,
								"nullable": fmt.Sprint(nu >= 0), "required": fmt.Sprint(required), "default": fmt.Sprint(d)},
						})
					}
				}
			}
		}
	}
	return out
}

// sameNamePairs: two definitions whose names normalise to the same Go type name ("limits" / "Limits"), each an object with one
// property v (+ a fixed sibling w); the two differ in exactly ONE keyword of v (or of the object). Distinct schemas must keep
// distinct behaviour however similar they are: every keyword the comparison of "equal" schemas could overlook is one case.
func sameNamePairs(prefix string) []SCase {
	str, in, arr := "string", "integer", "array"
	type pr struct {
		name string
		a, b J // property schema v in the two definitions
		ra   A // required lists of the two objects
		rb   A
	}
	v := A{"v"}
	pairs := []pr{
		{"minLength", J{"type": str, "minLength": 2}, J{"type": str, "minLength": 4}, v, v},
		{"maxLength", J{"type": str, "maxLength": 3}, J{"type": str, "maxLength": 5}, v, v},
		{"pattern", J{"type": str, "pattern": "^a"}, J{"type": str, "pattern": "^b"}, v, v},
		{"minimum", J{"type": in, "minimum": 1}, J{"type": in, "minimum": 3}, v, v},
		{"maximum", J{"type": in, "maximum": 5}, J{"type": in, "maximum": 9}, v, v},
		{"exclusiveMinimum", J{"type": in, "exclusiveMinimum": 1}, J{"type": in, "exclusiveMinimum": 3}, v, v},
		{"exclusiveMaximum", J{"type": in, "exclusiveMaximum": 5}, J{"type": in, "exclusiveMaximum": 9}, v, v},
		{"exclusiveMinimum-bool", J{"type": in, "minimum": 1, "exclusiveMinimum": true}, J{"type": in, "minimum": 1, "exclusiveMinimum": false}, v, v},
		{"multipleOf", J{"type": in, "multipleOf": 2}, J{"type": in, "multipleOf": 3}, v, v},
		{"minItems", J{"type": arr, "items": J{"type": in}, "minItems": 1}, J{"type": arr, "items": J{"type": in}, "minItems": 2}, v, v},
		{"maxItems", J{"type": arr, "items": J{"type": in}, "maxItems": 2}, J{"type": arr, "items": J{"type": in}, "maxItems": 3}, v, v},
		{"enum", J{"type": str, "enum": A{"a", "b"}}, J{"type": str, "enum": A{"a", "c"}}, v, v},
		{"default", J{"type": in, "default": 5}, J{"type": in, "default": 7}, nil, nil},
		{"default-presence", J{"type": in, "default": 5}, J{"type": in}, nil, nil},
		{"required", J{"type": str}, J{"type": str}, v, nil},
		{"required-other", J{"type": str}, J{"type": str}, v, A{"w"}},
		{"nullable", J{"type": str, "minLength": 2}, J{"type": A{str, "null"}, "minLength": 2}, v, v},
		{"items-type", J{"type": arr, "items": J{"type": in}}, J{"type": arr, "items": J{"type": str}}, v, v},
		{"keyword-presence", J{"type": str, "minLength": 2}, J{"type": str}, v, v},
		{"format", J{"type": str, "format": "date"}, J{"type": str}, v, v},
		{"ref-target", J{"$ref": "#/$defs/RS"}, J{"$ref": "#/$defs/RI"}, v, v},
		{"anyOf-branches", J{"anyOf": A{J{"type": "object", "properties": J{"a": J{"type": str}}, "required": A{"a"}}, J{"type": "object", "properties": J{"b": J{"type": in}}, "required": A{"b"}}}},
			J{"anyOf": A{J{"type": "object", "properties": J{"a": J{"type": in}}, "required": A{"a"}}, J{"type": "object", "properties": J{"b": J{"type": in}}, "required": A{"b"}}}}, v, v},
		{"allOf-branches", J{"allOf": A{J{"type": "object", "properties": J{"a": J{"type": str}}, "required": A{"a"}}, J{"type": "object", "properties": J{"b": J{"type": in}}}}},
			J{"allOf": A{J{"type": "object", "properties": J{"a": J{"type": str}}}, J{"type": "object", "properties": J{"b": J{"type": in}}, "required": A{"b"}}}}, v, v},
		{"type", J{"type": str}, J{"type": in}, v, v},
		{"nested-property-type", J{"type": "object", "properties": J{"a": J{"type": str}}}, J{"type": "object", "properties": J{"a": J{"type": in}}}, v, v},
		{"nested-required", J{"type": "object", "properties": J{"a": J{"type": str}}, "required": A{"a"}}, J{"type": "object", "properties": J{"a": J{"type": str}}}, v, v},
		{"additionalProperties-type", J{"type": "object", "additionalProperties": J{"type": str}}, J{"type": "object", "additionalProperties": J{"type": in}}, v, v},
		{"items-ref-target", J{"type": arr, "items": J{"$ref": "#/$defs/RS"}}, J{"type": arr, "items": J{"$ref": "#/$defs/RI"}}, v, v},
	}
	var out []SCase
	for _, p := range pairs {
		mk := func(vs J, r A) J {
			o := J{"type": "object", "properties": J{"v": space.Clone(vs), "w": J{"type": "boolean"}}}
			if len(r) > 0 {
				o["required"] = r
			}
			return o
		}
		for _, order := range []int{0, 1} {
			a, b, ra, rb := p.a, p.b, p.ra, p.rb
			if order == 1 {
				a, b, ra, rb = b, a, rb, ra
			}
			out = append(out, SCase{ID: fmt.Sprintf("%s/same-name-pair/%s/order=%d", prefix, p.name, order), Cfg: baseCfg(),
				Axes: map[string]string{"pos": "same-name-pair", "leaf": p.name},
				Schema: J{"type": "object", "properties": J{"x": J{"$ref": "#/$defs/limits"}, "y": J{"$ref": "#/$defs/Limits"}},
					"$defs": J{"limits": mk(a, ra), "Limits": mk(b, rb), "RS": J{"type": "string", "minLength": 1}, "RI": J{"type": "integer", "minimum": 0}}}})
		}
	}
	return out
}

// wrapLeaf places the (possibly modified) leaf schema s at the position and adds the definitions the leaf refers to; ok is
// false when the position keeps its definitions under the other keyword ("definitions").
func wrapLeaf(pos space.Position, l space.Leaf, s J, required bool) (J, bool) {
	root := pos.Wrap(s, required)
	if l.Defs != nil {
		if _, other := root["definitions"]; other {
			return nil, false
		}
		ds, _ := root["$defs"].(J)
		if ds == nil {
			ds = J{}
		}
		for k, v := range l.Defs {
			ds[k] = space.Clone(v.(J))
		}
		root["$defs"] = ds
	}
	return root, true
}

// collisionTriples: three definitions whose names normalise to the same Go type name, with contents following every
// equality pattern (ABB, ABA, AAB, ABC, AAA); variant(i) builds content i; each definition is referenced from a root
// property. With nested=true the second definition additionally refers to the third one from inside itself.
func collisionTriples(prefix string, variant func(i int) J, nested bool) []SCase {
	names := []string{"sku-code", "skuCode", "sku_code"}
	var out []SCase
	for _, pat := range []string{"ABB", "ABA", "AAB", "ABC", "AAA"} {
		defs := J{}
		props := J{}
		for i, n := range names {
			d := variant(int(pat[i] - 'A'))
			if nested && i == 1 {
				if pm, ok := d["properties"].(J); ok {
					pm["toThird"] = J{"$ref": "#/$defs/" + names[2]}
				}
			}
			defs[n] = d
			props[fmt.Sprintf("p%d", i)] = J{"$ref": "#/$defs/" + n}
		}
		id := fmt.Sprintf("%s/same-type-name/triple/%s/nested=%v", prefix, pat, nested)
		out = append(out, SCase{ID: id, Schema: J{"type": "object", "properties": props, "$defs": defs}, Cfg: baseCfg(),
			Axes: map[string]string{"pos": "same-type-name", "leaf": "triple-" + pat}})
	}
	return out
}

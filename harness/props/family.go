package props

import (
	"fmt"

	"verif/internal/genlab"
	"verif/internal/space"
)

type J = space.J
type A = space.A

// SCase is a single-file case: schema s.json, root type S, package s.
type SCase struct {
	ID     string
	Schema J
	Cfg    genlab.Cfg
	Extra  []genlab.File // sibling files
	Axes   map[string]string
	Main   string // path of the main schema file (default s.json)
}

// MainPath returns the path of the main schema file.
func (s SCase) MainPath() string {
	if s.Main != "" {
		return s.Main
	}
	return "s.json"
}

func baseCfg() genlab.Cfg {
	return genlab.Cfg{Package: "s", ResolveExt: []string{".json"}}
}

// Case materialises the generator case.
func (s SCase) Case() genlab.Case {
	files := []genlab.File{{Path: s.MainPath(), Content: space.Text(s.Schema)}}
	files = append(files, s.Extra...)
	cfg := s.Cfg
	if cfg.Package == "" {
		cfg.Package = "s"
	}
	if cfg.ResolveExt == nil {
		cfg.ResolveExt = []string{".json"}
	}
	return genlab.Case{ID: s.ID, Files: files, Args: []string{s.MainPath()}, Cfg: cfg}
}

// OptSet is a named option set.
type OptSet struct {
	Name string
	Mod  func(*genlab.Cfg)
}

func optSets(level int) []OptSet {
	os := []OptSet{
		{"default", func(c *genlab.Cfg) {}},
		{"extra-imports", func(c *genlab.Cfg) { c.ExtraImports = true }},
		{"only-models", func(c *genlab.Cfg) { c.OnlyModels = true }},
		{"min-sized-ints", func(c *genlab.Cfg) { c.MinSizedInts = true }},
	}
	if level >= 1 {
		os = append(os,
			OptSet{"tags-json", func(c *genlab.Cfg) { c.Tags = []string{"json"} }},
			OptSet{"tags-yaml+extra", func(c *genlab.Cfg) { c.Tags = []string{"yaml"}; c.ExtraImports = true }},
			OptSet{"caps", func(c *genlab.Cfg) { c.Caps = []string{"ID", "URL"} }},
			OptSet{"title+extra+sized", func(c *genlab.Cfg) {
				c.StructNameFromTitle = true
				c.ExtraImports = true
				c.MinSizedInts = true
			}},
		)
	}
	return os
}

// leafFamily enumerates leaf × nullability × required × default × position.
func leafFamily(level int) []SCase {
	var out []SCase
	for _, pos := range space.Positions(level) {
		for _, l := range space.Leaves(level) {
			nulls := []int{-1}
			if l.Nullable {
				nulls = []int{-1, 0}
				if level >= 1 {
					nulls = []int{-1, 0, 1}
				}
			}
			for _, nu := range nulls {
				for _, required := range []bool{true, false} {
					if pos.Name == "root" && !required {
						continue
					}
					defs := []bool{false}
					if l.Default != nil {
						defs = []bool{false, true}
					}
					for _, d := range defs {
						s := space.Clone(l.S)
						if nu >= 0 {
							s = space.MakeNullable(s, nu)
						}
						if d {
							s["default"] = l.Default
						}
						id := fmt.Sprintf("leaf/%s/%s/null=%d/req=%v/def=%v", pos.Name, l.Name, nu, required, d)
						root, ok := wrapLeaf(pos, l, s, required)
						if !ok {
							continue
						}
						out = append(out, SCase{
							ID: id, Schema: root, Cfg: baseCfg(),
							Axes: map[string]string{"pos": pos.Name, "leaf": l.Name, "kind": l.Kind, "format": l.Format,
								"nullable": fmt.Sprint(nu >= 0), "required": fmt.Sprint(required), "default": fmt.Sprint(d)},
						})
					}
				}
			}
		}
	}
	return out
}

// wrapLeaf places the (possibly modified) leaf schema s at the position and adds the definitions the leaf refers to; ok is
// false when the position keeps its definitions under the other keyword ("definitions").
func wrapLeaf(pos space.Position, l space.Leaf, s J, required bool) (J, bool) {
	root := pos.Wrap(s, required)
	if l.Defs != nil {
		if _, other := root["definitions"]; other {
			return nil, false
		}
		ds, _ := root["$defs"].(J)
		if ds == nil {
			ds = J{}
		}
		for k, v := range l.Defs {
			ds[k] = space.Clone(v.(J))
		}
		root["$defs"] = ds
	}
	return root, true
}

// collisionTriples: three definitions whose names normalise to the same Go type name, with contents following every
// equality pattern (ABB, ABA, AAB, ABC, AAA); variant(i) builds content i; each definition is referenced from a root
// property. With nested=true the second definition additionally refers to the third one from inside itself.
func collisionTriples(prefix string, variant func(i int) J, nested bool) []SCase {
	names := []string{"sku-code", "skuCode", "sku_code"}
	var out []SCase
	for _, pat := range []string{"ABB", "ABA", "AAB", "ABC", "AAA"} {
		defs := J{}
		props := J{}
		for i, n := range names {
			d := variant(int(pat[i] - 'A'))
			if nested && i == 1 {
				if pm, ok := d["properties"].(J); ok {
					pm["toThird"] = J{"$ref": "#/$defs/" + names[2]}
				}
			}
			defs[n] = d
			props[fmt.Sprintf("p%d", i)] = J{"$ref": "#/$defs/" + n}
		}
		id := fmt.Sprintf("%s/same-type-name/triple/%s/nested=%v", prefix, pat, nested)
		out = append(out, SCase{ID: id, Schema: J{"type": "object", "properties": props, "$defs": defs}, Cfg: baseCfg(),
			Axes: map[string]string{"pos": "same-type-name", "leaf": "triple-" + pat}})
	}
	return out
}

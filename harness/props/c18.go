package props

import (
	"encoding/json"
	"fmt"
	"os"
	"path/filepath"
	"sort"
	"strings"
	"sync"
	"time"
	"unicode/utf8"

	"verif/internal/genlab"
	"verif/internal/space"
	"verif/internal/ws"
)

func init() {
	register("C18", "fault_enumeration", c18)
	ruleText["C18"] = "fault enumeration on the real binary: (A) every ungeneratable element kind (unknown type, $ref to a missing definition / missing file / unsupported pointer / unsupported scheme, empty enum, non-primitive enum value, integer enum with a string member, null schema, missing-definition inside a referenced file) x every position (root property, nested property, array item, property of an item object, definition, property of a definition, allOf / anyOf branch and branch property, depth-3 nest, referenced sibling file, first / second of two argument files, map value) x output mode (stdout, fresh file, pre-existing file with sentinel content); which kinds are faults is decided by the tool itself at the simplest position (consistency oracle); " +
		"(B) malformed inputs: every proper prefix and every single-byte substitution (6-byte alphabet) of a valid schema, empty, blank, non-object JSON values, trailing garbage, invalid UTF-8, YAML analogues, a directory, a missing file, a dangling symlink, '-' with good / bad / empty standard input, a $ref to http://127.0.0.1:1/; (C) flag faults: mapping without '=', unknown flag, no package, no arguments, conflicting mappings; " +
		"(D) in-process: the whole C01 schema family plus the recursion graphs, any panic / fatal error / hang is a violation; oracle per run: terminates; exit 0 with every expected output present and non-empty, or exit != 0 with a diagnostic on stderr, empty stdout and an output tree byte-identical to before; no 'panic:' / 'goroutine '; non-trivial = every run; distinct = distinct (files, arguments, output mode)"
}

type c18Kind struct {
	name string
	frag any
	// extra files the kind needs
	extra []genlab.File
}

func c18Kinds() []c18Kind {
	return []c18Kind{
		{"unknown-type", J{"type": "strng"}, nil},
		{"unknown-type-in-list", J{"type": A{"strng", "null"}}, nil},
		{"type-list-with-a-number", J{"type": A{1}}, nil},
		{"ref-missing-def", J{"$ref": "#/$defs/Missing"}, nil},
		{"ref-missing-file", J{"$ref": "nowhere.json"}, nil},
		{"ref-unsupported-pointer", J{"$ref": "#/properties/ok"}, nil},
		{"ref-unsupported-scheme", J{"$ref": "ftp://example.com/x.json"}, nil},
		{"empty-enum", J{"enum": A{}}, nil},
		{"enum-object-value", J{"enum": A{J{"a": 1}}}, nil},
		{"int-enum-string-member", J{"type": "integer", "enum": A{1, "two"}}, nil},
		{"null-schema", nil, nil},
		{"ref-file-missing-def", J{"$ref": "lib.json#/$defs/Nope"}, []genlab.File{{Path: "lib.json", Content: `{"$id":"lib","$defs":{"Here":{"type":"object","properties":{"k":{"type":"string"}}}}}`}}},
		{"array-of-unknown", J{"type": "array", "items": J{"type": "strng"}}, nil},
		{"object-with-unknown", J{"type": "object", "properties": J{"inner": J{"type": "strng"}}}, nil},
		{"ref-empty-definition-name", J{"$ref": "#/definitions/"}, nil},
		{"typed-enum-object-member", J{"type": "string", "enum": A{"a", J{"x": 1}}}, nil},
		{"mixed-enum-object-member", J{"enum": A{"a", 1, J{"x": 1}}}, nil},
		{"enum-array-value", J{"enum": A{A{1}}}, nil},
		{"ref-whole-file-without-root", J{"$ref": "defsonly.json"}, []genlab.File{{Path: "defsonly.json", Content: `{"$id":"defsonly","definitions":{"Thing":{"type":"object","properties":{"k":{"type":"string"}}}}}`}}},
		{"ref-def-referring-to-null-def", J{"$ref": "nulls.json#/$defs/A"}, []genlab.File{{Path: "nulls.json", Content: `{"$id":"nulls","type":"object","$defs":{"A":{"$ref":"#/$defs/B"},"B":null}}`}}},
		{"ref-file-with-null-root-property", J{"$ref": "nullprop.json"}, []genlab.File{{Path: "nullprop.json", Content: `{"$id":"nullprop","type":"object","properties":{"p":null}}`}}},
		{"object-default-empty-key", J{"type": "object", "properties": J{"x": J{"type": "integer"}}, "default": J{"": 1}}, nil},
		// not faults (controls): must be accepted everywhere they are accepted at the root property
		{"control-string", J{"type": "string"}, nil},
		{"control-array-no-items", J{"type": "array"}, nil},
	}
}

type c18Position struct {
	name   string
	judged bool // listed in the statement (property, array item, definition, allOf/anyOf branch, any depth, any input file)
	build  func(f any) (files []genlab.File, args []string)
}

func c18Positions() []c18Position {
	one := func(s J) ([]genlab.File, []string) {
		return []genlab.File{{Path: "s.json", Content: space.Text(s)}}, []string{"s.json"}
	}
	ok := J{"type": "string"}
	q := J{"type": "object", "properties": J{"q": J{"type": "integer"}}}
	return []c18Position{
		{"root-property", true, func(f any) ([]genlab.File, []string) {
			return one(J{"type": "object", "properties": J{"ok": ok, "bad": f}})
		}},
		{"nested-property", true, func(f any) ([]genlab.File, []string) {
			return one(J{"type": "object", "properties": J{"ok": ok, "o": J{"type": "object", "properties": J{"bad": f}}}})
		}},
		{"array-item", true, func(f any) ([]genlab.File, []string) {
			return one(J{"type": "object", "properties": J{"ok": ok, "a": J{"type": "array", "items": f}}})
		}},
		{"item-object-property", true, func(f any) ([]genlab.File, []string) {
			return one(J{"type": "object", "properties": J{"ok": ok, "a": J{"type": "array", "items": J{"type": "object", "properties": J{"bad": f}}}}})
		}},
		{"definition", true, func(f any) ([]genlab.File, []string) {
			return one(J{"type": "object", "properties": J{"ok": ok}, "$defs": J{"Bad": f}})
		}},
		// the same under the legacy keyword (decoded in a second pass of the schema parser), unreferenced
		{"legacy-definition", true, func(f any) ([]genlab.File, []string) {
			return one(J{"type": "object", "properties": J{"ok": ok}, "definitions": J{"Bad": f}})
		}},
		{"legacy-definition-property", true, func(f any) ([]genlab.File, []string) {
			return one(J{"type": "object", "properties": J{"ok": ok}, "definitions": J{"D": J{"type": "object", "properties": J{"bad": f}}}})
		}},
		{"definition-property", true, func(f any) ([]genlab.File, []string) {
			return one(J{"type": "object", "properties": J{"ok": ok}, "$defs": J{"D": J{"type": "object", "properties": J{"bad": f}}}})
		}},
		{"allOf-branch", true, func(f any) ([]genlab.File, []string) {
			return one(J{"type": "object", "properties": J{"ok": ok, "c": J{"allOf": A{f, q}}}})
		}},
		{"anyOf-branch", true, func(f any) ([]genlab.File, []string) {
			return one(J{"type": "object", "properties": J{"ok": ok, "c": J{"anyOf": A{f, q}}}})
		}},
		{"allOf-branch-property", true, func(f any) ([]genlab.File, []string) {
			return one(J{"type": "object", "properties": J{"ok": ok, "c": J{"allOf": A{J{"type": "object", "properties": J{"bad": f}}, q}}}})
		}},
		{"anyOf-branch-property", true, func(f any) ([]genlab.File, []string) {
			return one(J{"type": "object", "properties": J{"ok": ok, "c": J{"anyOf": A{J{"type": "object", "properties": J{"bad": f}}, q}}}})
		}},
		{"depth-3", true, func(f any) ([]genlab.File, []string) {
			return one(J{"type": "object", "properties": J{"l1": J{"type": "object", "properties": J{"l2": J{"type": "object", "properties": J{"l3": J{"type": "array", "items": J{"type": "object", "properties": J{"bad": f}}}}}}}}})
		}},
		{"referenced-file", true, func(f any) ([]genlab.File, []string) {
			return []genlab.File{{Path: "s.json", Content: space.Text(J{"$id": "main", "type": "object", "properties": J{"ok": ok, "r": J{"$ref": "other.json"}}})},
				{Path: "other.json", Content: space.Text(J{"$id": "other", "type": "object", "properties": J{"bad": f}})}}, []string{"s.json"}
		}},
		{"second-argument-file", true, func(f any) ([]genlab.File, []string) {
			return []genlab.File{{Path: "first.json", Content: space.Text(J{"$id": "first", "type": "object", "properties": J{"ok": ok}})},
				{Path: "second.json", Content: space.Text(J{"$id": "second", "type": "object", "properties": J{"bad": f}})}}, []string{"first.json", "second.json"}
		}},
		{"first-argument-file", true, func(f any) ([]genlab.File, []string) {
			return []genlab.File{{Path: "first.json", Content: space.Text(J{"$id": "first", "type": "object", "properties": J{"bad": f}})},
				{Path: "second.json", Content: space.Text(J{"$id": "second", "type": "object", "properties": J{"ok": ok}})}}, []string{"first.json", "second.json"}
		}},
		{"array-definition-item", true, func(f any) ([]genlab.File, []string) {
			return one(J{"type": "object", "properties": J{"ok": ok}, "$defs": J{"List": J{"type": "array", "items": f}}})
		}},
		{"array-definition-nested-item", true, func(f any) ([]genlab.File, []string) {
			return one(J{"type": "object", "properties": J{"ok": ok, "l": J{"$ref": "#/$defs/List"}}, "$defs": J{"List": J{"type": "array", "items": J{"type": "array", "items": f}}}})
		}},
		{"root-array-item", true, func(f any) ([]genlab.File, []string) {
			return one(J{"type": "array", "items": f})
		}},
		{"second-file-allOf-same-ref-text-as-first", true, func(f any) ([]genlab.File, []string) {
			// the first file defines and uses (inside allOf) the names the second file's fault may refer to
			firstDefs := J{"Missing": J{"type": "object", "properties": J{"fromFirst": ok}}}
			return []genlab.File{{Path: "first.json", Content: space.Text(J{"$id": "first", "type": "object", "$defs": firstDefs,
					"properties": J{"c": J{"allOf": A{J{"$ref": "#/$defs/Missing"}, q}}, "d": J{"anyOf": A{J{"$ref": "#/$defs/Missing"}, q}}}})},
					{Path: "second.json", Content: space.Text(J{"$id": "second", "type": "object", "properties": J{"c": J{"allOf": A{f, q}}, "d": J{"anyOf": A{f, q}}}})}},
				[]string{"first.json", "second.json"}
		}},
		{"referenced-file-allOf-same-ref-text-as-referrer", true, func(f any) ([]genlab.File, []string) {
			firstDefs := J{"Missing": J{"type": "object", "properties": J{"fromFirst": ok}}}
			return []genlab.File{{Path: "s.json", Content: space.Text(J{"$id": "main", "type": "object", "$defs": firstDefs,
					"properties": J{"c": J{"allOf": A{J{"$ref": "#/$defs/Missing"}, q}}, "r": J{"$ref": "other.json"}}})},
					{Path: "other.json", Content: space.Text(J{"$id": "other", "type": "object", "properties": J{"c": J{"allOf": A{f, q}}}})}},
				[]string{"s.json"}
		}},
		{"allOf-second-branch", true, func(f any) ([]genlab.File, []string) {
			return one(J{"type": "object", "properties": J{"ok": ok, "c": J{"allOf": A{q, f}}}})
		}},
		{"anyOf-second-branch", true, func(f any) ([]genlab.File, []string) {
			return one(J{"type": "object", "properties": J{"ok": ok, "c": J{"anyOf": A{q, f}}}})
		}},
		{"allOf-branch-after-string-branch", true, func(f any) ([]genlab.File, []string) {
			return one(J{"type": "object", "properties": J{"ok": ok, "c": J{"allOf": A{ok, f}}}})
		}},
		{"anyOf-branch-after-string-branch", true, func(f any) ([]genlab.File, []string) {
			return one(J{"type": "object", "properties": J{"ok": ok, "c": J{"anyOf": A{ok, f}}}})
		}},
		{"definition-allOf-branch", true, func(f any) ([]genlab.File, []string) {
			return one(J{"type": "object", "properties": J{"ok": ok, "d": J{"$ref": "#/$defs/D"}}, "$defs": J{"D": J{"allOf": A{q, f}}}})
		}},
		// an anyOf whose first member leads back to the definition that contains it (the position becomes interface{}): the members after it
		// are still part of the schema
		{"anyOf-member-property-after-recursive-member", true, func(f any) ([]genlab.File, []string) {
			return one(J{"type": "object", "properties": J{"ok": ok, "n": J{"$ref": "#/$defs/Node"}}, "$defs": J{"Node": J{"type": "object", "properties": J{"v": ok,
				"alt": J{"anyOf": A{J{"$ref": "#/$defs/Node"}, J{"type": "object", "properties": J{"bad": f}}}}}}}})
		}},
		{"anyOf-item-member-after-recursive-member", true, func(f any) ([]genlab.File, []string) {
			return one(J{"type": "object", "properties": J{"ok": ok, "n": J{"$ref": "#/$defs/Node"}}, "$defs": J{"Node": J{"type": "object", "properties": J{"v": ok,
				"kids": J{"type": "array", "items": J{"anyOf": A{J{"$ref": "#/$defs/Node"}, J{"type": "object", "properties": J{"bad": f}}}}}}}}})
		}},
		// an anyOf met while an enclosing anyOf still holds the same reference (no recursion): inside the items of an array member, and after
		// the same reference listed twice
		{"anyOf-in-array-member-of-anyOf-sharing-a-ref", true, func(f any) ([]genlab.File, []string) {
			return one(J{"type": "object", "properties": J{"ok": ok, "c": J{"anyOf": A{J{"$ref": "#/$defs/N"},
				J{"type": "array", "items": J{"anyOf": A{J{"$ref": "#/$defs/N"}, J{"type": "object", "properties": J{"bad": f}}}}}}}}, "$defs": J{"N": J{"type": "object", "properties": J{"k": ok}}}})
		}},
		{"anyOf-member-after-repeated-ref", true, func(f any) ([]genlab.File, []string) {
			return one(J{"type": "object", "properties": J{"ok": ok, "c": J{"anyOf": A{J{"$ref": "#/$defs/N"}, J{"$ref": "#/$defs/N"}, J{"type": "object", "properties": J{"bad": f}}}}},
				"$defs": J{"N": J{"type": "object", "properties": J{"k": ok}}}})
		}},
		// inside a schema that allows two non-null types (emitted as interface{}), and as a definition kept below the root
		{"property-of-a-two-type-schema", true, func(f any) ([]genlab.File, []string) {
			return one(J{"type": "object", "properties": J{"ok": ok, "a": J{"type": A{"object", "string"}, "properties": J{"bad": f}}}})
		}},
		{"definition-below-the-root", true, func(f any) ([]genlab.File, []string) {
			return one(J{"type": "object", "properties": J{"ok": ok, "a": J{"type": "object", "properties": J{"x": ok}, "$defs": J{"Bad": f}}}})
		}},
		{"typeless-root-property", true, func(f any) ([]genlab.File, []string) {
			return one(J{"properties": J{"ok": ok, "bad": f}})
		}},
		{"own-property-next-to-allOf", true, func(f any) ([]genlab.File, []string) {
			return one(J{"type": "object", "properties": J{"ok": ok, "p": J{"type": "object", "properties": J{"bad": f}, "allOf": A{q}}}})
		}},
		{"legacy-definitions-next-to-$defs", true, func(f any) ([]genlab.File, []string) {
			return one(J{"type": "object", "properties": J{"ok": ok}, "$defs": J{"A": ok}, "definitions": J{"Bad": f}})
		}},
		{"additional-properties-next-to-properties", false, func(f any) ([]genlab.File, []string) {
			return one(J{"type": "object", "properties": J{"ok": ok, "o": J{"type": "object", "properties": J{"k": ok}, "additionalProperties": f}}})
		}},
		{"map-value", false, func(f any) ([]genlab.File, []string) {
			return one(J{"type": "object", "properties": J{"ok": ok, "m": J{"type": "object", "additionalProperties": f}}})
		}},
	}
}

type c18Run struct {
	id     string
	files  []genlab.File
	args   []string // schema arguments
	flags  []string
	mode   string // stdout | fresh | existing
	stdin  string
	setup  func(dir string)
	fault  int // 1 = must fail, 0 = must succeed, -1 = either (only cleanliness is judged)
	judged bool
	kind   string
	pos    string
	res    genlab.CLIResult
	before map[string]string
	// stdoutTo: the standard output of the run is this device instead of a pipe (write-fault injection)
	stdoutTo string
}

const c18Sentinel = "// SENTINEL: this file existed before the run and must not change when the run fails\n"

func (r *c18Run) outFlags() ([]string, []string) {
	switch r.mode {
	case "fresh":
		return []string{"-o", "out/gen.go"}, []string{"out/gen.go"}
	case "existing":
		return []string{"-o", "existing.go"}, []string{"existing.go"}
	}
	return nil, nil
}

func c18Exec(bin string, runs []*c18Run) {
	root := ws.Dir("c18")
	var wg sync.WaitGroup
	sem := make(chan struct{}, 16)
	for i, r := range runs {
		wg.Add(1)
		sem <- struct{}{}
		go func(i int, r *c18Run) {
			defer wg.Done()
			defer func() { <-sem }()
			d := filepath.Join(root, fmt.Sprintf("r%06d", i))
			genlab.Materialise(d, r.files)
			if r.mode == "existing" {
				os.WriteFile(filepath.Join(d, "existing.go"), []byte(c18Sentinel), 0o644)
			}
			if r.setup != nil {
				r.setup(d)
			}
			r.before = genlab.ReadTree(d)
			of, _ := r.outFlags()
			args := append(append(append([]string{}, r.flags...), of...), r.args...)
			r.res = genlab.RunCLITo(bin, d, args, r.stdin, 60*time.Second, r.stdoutTo)
			os.RemoveAll(d)
		}(i, r)
	}
	wg.Wait()
}

func c18Classify(ctx *Ctx, r *c18Run) (ok bool) {
	res := r.res
	_, outs := r.outFlags()
	allArgs := append(append([]string{}, r.flags...), r.args...)
	replay := map[string]any{"kind": "cli", "files": r.files, "flags": r.flags, "args": r.args, "output_mode": r.mode, "stdin": r.stdin,
		"exit": res.Exit, "stderr": trunc(res.Stderr, 1500), "stdout_bytes": len(res.Stdout)}
	viol := func(sig, f string, a ...any) {
		ctx.Run.Violation(sig, fmt.Sprintf("%s (args %q, output mode %s): %s", r.id, allArgs, r.mode, fmt.Sprintf(f, a...)), replay)
	}
	changed := func() string {
		for n, c := range res.Files {
			if b, ok := r.before[n]; !ok {
				return "created " + n
			} else if b != c {
				return "modified " + n
			}
		}
		for n := range r.before {
			if _, ok := res.Files[n]; !ok {
				return "removed " + n
			}
		}
		return ""
	}
	switch {
	case res.TimedOut:
		viol("hang:"+r.kind, "did not terminate within 60 s")
		return false
	case strings.Contains(res.Stderr, "panic:") || strings.Contains(res.Stderr, "goroutine ") || strings.Contains(res.Stderr, "fatal error:"):
		viol("panic:"+r.kind+":"+r.pos, "panicked: %s", firstLine(res.Stderr[strings.Index(res.Stderr, "panic:")+0:]))
		return false
	}
	if res.Exit == 0 {
		if r.fault == 1 {
			viol("fault-ignored:"+r.kind+":"+r.pos, "an ungeneratable element / unparsable input was accepted with exit status 0 (stderr: %s)", trunc(strings.TrimSpace(res.Stderr), 200))
			return false
		}
		// complete output
		if len(outs) == 0 {
			if strings.TrimSpace(res.Stdout) == "" && r.judged && r.kind != "flag" {
				viol("success-without-output:"+r.kind, "exit status 0 but nothing was written to stdout")
				return false
			}
		} else if r.kind != "flag" {
			for _, o := range outs {
				c, exists := res.Files[o]
				if !exists || strings.TrimSpace(c) == "" || c == c18Sentinel {
					viol("success-without-output:"+r.kind, "exit status 0 but output file %s is missing, empty or unchanged", o)
					return false
				}
			}
			if res.Stdout != "" {
				viol("stdout-not-empty", "output goes to a file but stdout is not empty")
				return false
			}
		}
		return true
	}
	// failure path
	if r.fault == 0 {
		viol("valid-input-rejected:"+r.kind+":"+r.pos, "a generatable schema was rejected (exit %d): %s", res.Exit, trunc(strings.TrimSpace(res.Stderr), 300))
		return false
	}
	if strings.TrimSpace(res.Stderr) == "" {
		viol("no-diagnostic", "exit status %d without a diagnostic on stderr", res.Exit)
		return false
	}
	if res.Stdout != "" {
		viol("stdout-on-failure:"+r.kind, "exit status %d but %d bytes were written to stdout", res.Exit, len(res.Stdout))
		return false
	}
	if ch := changed(); ch != "" {
		viol("output-tree-changed-on-failure:"+r.kind, "exit status %d but the run %s", res.Exit, ch)
		return false
	}
	return true
}

func c18(ctx *Ctx) {
	bin, err := ws.CLI()
	if err != nil {
		harnessFail("cannot build the CLI: %v", err)
	}
	base := []string{"-p", "s", "--resolve-extension", ".json"}
	modes := []string{"stdout", "fresh", "existing"}
	// ---- (A) fault matrix
	kinds, poss := c18Kinds(), c18Positions()
	var probe []*c18Run
	for _, k := range kinds {
		files, args := poss[0].build(k.frag)
		probe = append(probe, &c18Run{id: "C18/probe/" + k.name, files: append(files, k.extra...), args: args, flags: base, mode: "stdout", fault: -1, kind: k.name, pos: poss[0].name})
	}
	c18Exec(bin, probe)
	isFault := map[string]bool{}
	for _, r := range probe {
		isFault[r.kind] = r.res.Exit != 0
	}
	ctx.Run.Cov["fault_kinds_by_consistency_probe"] = isFault
	for _, want := range []string{"unknown-type", "ref-missing-def", "ref-missing-file", "empty-enum", "enum-object-value", "typed-enum-object-member", "mixed-enum-object-member", "enum-array-value", "ref-empty-definition-name"} {
		if !isFault[want] {
			ctx.Run.Violation("fault-ignored:"+want+":root-property", fmt.Sprintf("C18: %s as a plain root property is accepted with exit status 0 although the statement names it as ungeneratable", want),
				map[string]any{"kind": "cli", "kindName": want})
		}
	}
	if isFault["control-string"] {
		ctx.Run.Violation("valid-input-rejected:control", fmt.Sprintf("C18: a plain string property is rejected by the tool: %s", trunc(probe[len(probe)-2].res.Stderr, 300)), map[string]any{"kind": "cli", "kindName": "control-string"})
	}
	var runs []*c18Run
	for _, k := range kinds {
		for _, p := range poss {
			for _, m := range modes {
				if ctx.Level == 0 && m == "fresh" && p.name != "root-property" && p.name != "second-argument-file" {
					continue
				}
				files, args := p.build(k.frag)
				r := &c18Run{id: fmt.Sprintf("C18/A/%s/%s", k.name, p.name), files: append(files, k.extra...), args: args, flags: base, mode: m, kind: k.name, pos: p.name, judged: p.judged}
				switch {
				case !p.judged:
					r.fault = -1
				case isFault[k.name]:
					r.fault = 1
				default:
					r.fault = -1 // a kind the tool accepts at the root: only cleanliness is judged elsewhere (e.g. allOf of a string)
				}
				if k.name == "control-string" && p.judged && !strings.Contains(p.name, "Of-branch") {
					r.fault = 0
				}
				if k.name == "null-schema" && (p.name == "array-item" || p.name == "map-value") {
					r.fault = -1 // "items": null / "additionalProperties": null decode as "keyword absent"
				}
				runs = append(runs, r)
			}
		}
	}
	// ---- (B) malformed inputs
	valid := `{"$id":"v","type":"object","properties":{"a":{"type":"string"},"n":{"type":"integer","minimum":1}},"required":["a"]}`
	addB := func(id, name, content string, fault int, flags []string, stdin string, setup func(string), args ...string) {
		if args == nil {
			args = []string{name}
		}
		var files []genlab.File
		if name != "" && content != "\x00none" {
			files = []genlab.File{{Path: name, Content: content}}
		}
		for _, m := range []string{"stdout", "existing"} {
			runs = append(runs, &c18Run{id: "C18/B/" + id, files: files, args: args, flags: append(append([]string{}, base...), flags...), mode: m, fault: fault, kind: "malformed", pos: id, judged: true, stdin: stdin, setup: setup})
		}
	}
	for i := 0; i < len(valid); i++ {
		addB(fmt.Sprintf("prefix-%03d", i), "s.json", valid[:i], 1, nil, "", nil)
	}
	step := 3
	if ctx.Level >= 1 {
		step = 1
	}
	for i := 0; i < len(valid); i += step {
		for _, c := range []byte{'"', '{', '[', '0', 'x', ' '} {
			if valid[i] == c {
				continue
			}
			mut := valid[:i] + string(c) + valid[i+1:]
			f := -1
			if !json.Valid([]byte(mut)) {
				f = 1
			}
			addB(fmt.Sprintf("subst-%03d-%c", i, c), "s.json", mut, f, nil, "", nil)
		}
	}
	addB("empty", "s.json", "", 1, nil, "", nil)
	addB("blank", "s.json", " \n\t ", 1, nil, "", nil)
	for i, v := range []string{`null`, `true`, `42`, `"str"`, `[]`, `[{"type":"object"}]`} {
		addB(fmt.Sprintf("non-object-%d", i), "s.json", v, -1, nil, "", nil)
	}
	addB("trailing-garbage", "s.json", valid+" garbage", 1, nil, "", nil)
	addB("trailing-second-value", "s.json", valid+valid, 1, nil, "", nil)
	addB("invalid-utf8-in-name", "s.json", "{\"type\":\"object\",\"properties\":{\"a\xff\":{\"type\":\"string\"}}}", -1, nil, "", nil)
	addB("invalid-utf8-structural", "s.json", "\xff\xfe{\"type\":\"object\"}", 1, nil, "", nil)
	addB("yaml-valid-control", "s.yaml", "type: object\nproperties:\n  a: {type: string}\n", 0, nil, "", nil)
	addB("yaml-bad-indent", "s.yaml", "type: object\nproperties:\n  a: {type: string\n b: [", 1, nil, "", nil)
	addB("yaml-tab", "s.yaml", "type: object\nproperties:\n\ta: {type: string}\n", 1, nil, "", nil)
	addB("yaml-scalar", "s.yaml", "just a string\n", 1, nil, "", nil)
	addB("yaml-empty", "s.yaml", "", -1, nil, "", nil)
	addB("yaml-unknown-type", "s.yaml", "type: object\nproperties:\n  a: {type: strng}\n", 1, nil, "", nil)
	addB("directory", "", "\x00none", 1, nil, "", func(d string) { os.MkdirAll(filepath.Join(d, "adir.json"), 0o755) }, "adir.json")
	addB("missing-file", "", "\x00none", 1, nil, "", nil, "does-not-exist.json")
	addB("dangling-symlink", "", "\x00none", 1, nil, "", func(d string) { os.Symlink("nowhere-target.json", filepath.Join(d, "link.json")) }, "link.json")
	addB("stdin-good", "", "\x00none", 0, nil, valid, nil, "-")
	addB("stdin-bad", "", "\x00none", 1, nil, valid[:40], nil, "-")
	addB("stdin-empty", "", "\x00none", 1, nil, "", nil, "-")
	addB("ref-http-refused", "s.json", `{"type":"object","properties":{"r":{"$ref":"http://127.0.0.1:1/x.json"}}}`, 1, nil, "", nil)
	addB("valid-control", "s.json", valid, 0, nil, "", nil)
	// two files, the second unparsable
	runs = append(runs, &c18Run{id: "C18/B/second-file-unparsable", files: []genlab.File{{Path: "one.json", Content: valid}, {Path: "two.json", Content: valid[:30]}}, args: []string{"one.json", "two.json"},
		flags: append(append([]string{}, base...), "--schema-output", "v=one.go"), mode: "existing", fault: 1, kind: "malformed", pos: "second-file", judged: true})
	// ---- (C) flag faults
	addC := func(id string, flags []string, args []string, fault int) {
		for _, m := range []string{"stdout", "existing"} {
			runs = append(runs, &c18Run{id: "C18/C/" + id, files: []genlab.File{{Path: "s.json", Content: valid}, {Path: "t.json", Content: strings.Replace(valid, `"v"`, `"w"`, 1)}}, args: args, flags: flags, mode: m, fault: fault, kind: "flag", pos: id, judged: true})
		}
	}
	addC("mapping-without-equals/package", []string{"-p", "s", "--schema-package", "v"}, []string{"s.json"}, 1)
	addC("mapping-without-equals/output", []string{"-p", "s", "--schema-output", "v"}, []string{"s.json"}, 1)
	addC("mapping-without-equals/root-type", []string{"-p", "s", "--schema-root-type", "v"}, []string{"s.json"}, 1)
	// a root type name that is not a Go identifier
	for _, bad := range []string{"my-type", "9x", "func", "a b"} {
		addC(fmt.Sprintf("root-type-not-an-identifier/%q", bad), []string{"--schema-package", "v=example.com/p1", "--schema-root-type", "v=" + bad, "--schema-output", "v=mapped/named.go"}, []string{"s.json"}, 1)
	}
	addC("unknown-flag", []string{"-p", "s", "--no-such-flag"}, []string{"s.json"}, 1)
	addC("no-package", nil, []string{"s.json"}, 1)
	addC("no-arguments", []string{"-p", "s"}, nil, 1)
	addC("same-file-two-packages", []string{"--schema-package", "v=p1", "--schema-package", "w=p2", "--schema-output", "v=same.go", "--schema-output", "w=same.go"}, []string{"s.json", "t.json"}, 1)
	// (a package mapping without --schema-output is the documented "do not emit this schema": crossPackageNoOutput)
	addC("control-mapped", []string{"--schema-package", "v=example.com/p1", "--schema-root-type", "v=Named", "--schema-output", "v=mapped/named.go"}, []string{"s.json"}, -1)
	// (C') an output that cannot be written (its path is an existing directory) among several outputs: nothing may be written at all
	for _, blocked := range []string{"a.go", "b.go"} {
		blocked := blocked
		runs = append(runs, &c18Run{id: "C18/C/one-of-two-outputs-is-a-directory/" + blocked, mode: "stdout", fault: 1, kind: "output-fault", pos: blocked, judged: true,
			files: []genlab.File{{Path: "s.json", Content: valid}, {Path: "t.json", Content: strings.Replace(valid, `"v"`, `"w"`, 1)}}, args: []string{"s.json", "t.json"},
			flags: []string{"--schema-package", "v=example.com/p1", "--schema-output", "v=out/a.go", "--schema-package", "w=example.com/p1", "--schema-output", "w=out/b.go"},
			setup: func(dir string) { os.MkdirAll(filepath.Join(dir, "out", blocked), 0o755) }})
	}
	// (C'') write faults injected through the device: every write to /dev/full fails with ENOSPC - as standard output, as the -o file, and as
	// one of two mapped outputs; the run must fail with a diagnostic instead of reporting success for output that was never written
	if _, err := os.Stat("/dev/full"); err == nil {
		two := []genlab.File{{Path: "s.json", Content: valid}, {Path: "t.json", Content: strings.Replace(valid, `"v"`, `"w"`, 1)}}
		runs = append(runs,
			&c18Run{id: "C18/C/write-fault/stdout-is-a-full-device", mode: "stdout", fault: 1, kind: "write-fault", pos: "stdout", judged: true, files: two[:1], args: []string{"s.json"}, flags: []string{"-p", "s"}, stdoutTo: "/dev/full"},
			&c18Run{id: "C18/C/write-fault/stdout-is-a-full-device/two-files", mode: "stdout", fault: 1, kind: "write-fault", pos: "stdout", judged: true, files: two, args: []string{"s.json", "t.json"}, flags: []string{"-p", "s"}, stdoutTo: "/dev/full"},
			&c18Run{id: "C18/C/write-fault/output-file-is-a-full-device", mode: "stdout", fault: 1, kind: "write-fault", pos: "-o", judged: true, files: two[:1], args: []string{"s.json"}, flags: []string{"-p", "s", "-o", "/dev/full"}},
			&c18Run{id: "C18/C/write-fault/mapped-output-is-a-full-device", mode: "stdout", fault: 1, kind: "write-fault", pos: "--schema-output", judged: true, files: two, args: []string{"s.json", "t.json"},
				flags: []string{"-p", "s", "--schema-output", "w=/dev/full"}})
	}
	c18Exec(bin, runs)
	byOutcome := map[string]int{}
	known := func(r *c18Run) string {
		switch {
		case r.pos == "typeless-root-property" && r.fault == 1 && r.res.Exit == 0:
			return "TYPELESS_ROOT_NOT_GENERATED"
		case r.pos == "own-property-next-to-allOf" && r.fault == 1 && r.res.Exit == 0:
			return "COMPOSITE_SIBLING_KEYWORDS_DROPPED"
		case r.pos == "legacy-definitions-next-to-$defs" && r.fault == 1 && r.res.Exit == 0:
			return "LEGACY_DEFINITIONS_DROPPED_NEXT_TO_DEFS"
		case r.pos == "property-of-a-two-type-schema" && r.fault == 1 && r.res.Exit == 0:
			return "MULTI_TYPE_SCHEMA_NOT_VISITED"
		case r.pos == "definition-below-the-root" && r.fault == 1 && r.res.Exit == 0:
			return "NESTED_DEFINITIONS_NOT_VISITED"
		case r.pos == "definition-allOf-branch" && r.fault == 1 && r.res.Exit == 0:
			return "UNTYPED_COMPOSITE_DEFINITION_NOT_GENERATED"
		case r.kind == "empty-enum" && (r.pos == "allOf-branch" || r.pos == "allOf-second-branch" || r.pos == "allOf-branch-after-string-branch" || strings.Contains(r.pos, "-allOf-same-ref-text")) && r.res.Exit == 0:
			return "EMPTY_ENUM_ALLOF_BRANCH_IGNORED"
		case strings.Contains(r.kind, "enum") && r.pos == "allOf-branch-after-string-branch" && r.fault == 1 && r.res.Exit == 0:
			return "PRIMITIVE_ALLOF_BRANCHES_NOT_GENERATED"
		case r.kind == "output-fault" && r.res.Exit != 0 && strings.TrimSpace(r.res.Stderr) != "" && r.res.Stdout == "" && !strings.Contains(r.res.Stderr, "panic:") && len(r.res.Files) > len(r.before):
			return "PARTIAL_OUTPUT_ON_WRITE_ERROR"
		case r.kind == "write-fault" && r.pos == "--schema-output" && r.res.Exit != 0 && strings.TrimSpace(r.res.Stderr) != "" && !strings.Contains(r.res.Stderr, "panic:") && r.res.Stdout != "":
			return "PARTIAL_OUTPUT_ON_WRITE_ERROR" // the other output (standard output here) had already been written when the write failed
		case r.kind == "malformed" && strings.HasPrefix(r.pos, "trailing-") && r.res.Exit == 0:
			return "TRAILING_BYTES_IGNORED"
		case r.kind == "malformed" && strings.HasPrefix(r.pos, "subst-") && r.res.Exit == 0 && r.fault == 1 && json.Valid([]byte(firstJSONValue(r.files[0].Content))):
			return "TRAILING_BYTES_IGNORED"
		}
		return ""
	}
	for i, r := range runs {
		ctx.Run.Eval(fmt.Sprintf("%s|%s|%v|%v", r.id, r.mode, r.args, r.flags), true)
		if k := known(r); k != "" && ctx.Run.Listed(k) {
			ctx.Run.Known(k, fmt.Sprintf("%s: exit %d (%d bytes on stdout, %d files in the tree, %d before)", r.id, r.res.Exit, len(r.res.Stdout), len(r.res.Files), len(r.before)), map[string]any{"kind": "cli", "files": r.files, "flags": r.flags, "args": r.args})
			byOutcome["known:"+k]++
			continue
		}
		ok := c18Classify(ctx, r)
		oc := fmt.Sprintf("exit=%d", r.res.Exit)
		if !ok {
			oc = "violation"
		}
		byOutcome[oc]++
		if i == 0 || i == len(runs)/2 || i == len(runs)-1 {
			ctx.Run.Sample(map[string]any{"run": r.id, "flags": r.flags, "args": r.args, "output_mode": r.mode, "files": r.files, "exit": r.res.Exit, "stderr": trunc(r.res.Stderr, 200)})
		}
	}
	for k, v := range byOutcome {
		ctx.Run.Count("cli_outcome:"+k, v)
	}
	ctx.Run.Count("cli_runs", len(runs)+len(probe))
	c18InProcess(ctx)
	ctx.Run.Assume("the checks run as root, so permission-denied files cannot be produced and are not claimed", "http(s) references are only exercised against a refused local port (no network)",
		"additionalProperties subschemas are not in the statement's list of positions: only cleanliness (no panic, no hang, no partial output) is judged there",
		"an element kind counts as ungeneratable iff the tool itself rejects it as a plain root property")
}

// firstJSONValue returns the longest prefix of s that is one complete JSON value followed by anything ("" if none).
func firstJSONValue(s string) string {
	dec := json.NewDecoder(strings.NewReader(s))
	var v any
	if err := dec.Decode(&v); err != nil {
		return ""
	}
	off := dec.InputOffset()
	if int(off) >= len(s) || !utf8.ValidString(s[:off]) {
		return ""
	}
	return s[:off]
}

// c18InProcess: the whole generator family, any panic / fatal error / hang is a violation.
func c18InProcess(ctx *Ctx) {
	fam := c01Family(ctx.Level)
	fam = append(fam, c10CasesB(ctx.Level)...)
	jobs := make([]genlab.Job, len(fam))
	for i := range fam {
		gc := fam[i].Case()
		jobs[i] = genlab.Job{Op: "gen", Case: &gc}
	}
	outcomes := map[string]int{}
	err := ctx.Pool.Run(jobs, func(j *genlab.Job, r *genlab.Resp) {
		sc := &fam[j.Seq]
		ctx.Run.Eval("inproc|"+sc.ID, true)
		replay := map[string]any{"kind": "gen", "files": j.Case.Files, "args": j.Case.Args, "cfg": j.Case.Cfg}
		switch {
		case r.Hang || r.Crash != "":
			msg := "hang (60 s)"
			if r.Crash != "" {
				msg = "fatal: " + lastLine(r.Crash)
			}
			if c10NonTerminating(sc.Axes["leaf"]) && sc.Axes["pos"] == "recursion" && ctx.Run.Listed("TWO_RECURSIVE_ANYOF_ITEM_EDGES_NO_TERMINATION") {
				ctx.Run.Known("TWO_RECURSIVE_ANYOF_ITEM_EDGES_NO_TERMINATION", sc.ID+": "+msg, replay)
				outcomes["known"]++
				return
			}
			ctx.Run.Violation("inprocess-fatal", fmt.Sprintf("%s: the generator does not terminate normally: %s", sc.ID, msg), replay)
			outcomes["fatal/hang"]++
		case r.Res.Panic != "":
			if sc.Axes["leaf"] == "root-self-ref" && ctx.Run.Listed("ROOT_SELF_REF_PANICS") {
				ctx.Run.Known("ROOT_SELF_REF_PANICS", sc.ID+": "+firstLine(r.Res.Panic), replay)
				outcomes["known"]++
				return
			}
			ctx.Run.Violation("inprocess-panic:"+normCompileMsg(firstLine(r.Res.Panic)), fmt.Sprintf("%s: the generator panics: %s", sc.ID, firstLine(r.Res.Panic)), replay)
			outcomes["panic"]++
		case r.Res.Err != "":
			outcomes["error"]++
		default:
			outcomes["ok"]++
		}
	})
	if err != nil {
		harnessFail("pool: %v", err)
	}
	keys := make([]string, 0, len(outcomes))
	for k := range outcomes {
		keys = append(keys, k)
	}
	sort.Strings(keys)
	for _, k := range keys {
		ctx.Run.Count("inprocess_outcome:"+k, outcomes[k])
	}
}

package props

import (
	"encoding/json"
	"fmt"
	"math"
	"regexp"
	"strings"

	"gopkg.in/yaml.v3"

	"verif/drv"
	"verif/internal/batch"
	"verif/internal/genlab"
	"verif/internal/jsonv"
	"verif/internal/refmodel"
)

func init() {
	register("C17", "exploration", c17)
	ruleText["C17"] = "the programs of the C05, C06, C07, C08 and C09 families, generated with --extra-imports, compiled; documents = every enumerated document that is valid or violates exactly one required / bound / length / pattern / string-enum rule (k = 1), each decoded through json.Unmarshal and, as a self-checked block-style YAML rendering, through yaml.Unmarshal; " +
		"oracle = same accept/reject verdict and same reflect-walk of the decoded value (including defaults); non-trivial = document differs from base; distinct = (source hash, document)"
}

// toNative converts a jsonv value to Go natives for yaml.Marshal; ok=false if a number is not int64/float64-exact.
func toNative(v any) (any, bool) {
	switch x := v.(type) {
	case json.Number:
		s := string(x)
		if !strings.ContainsAny(s, ".eE") {
			r, _ := jsonv.Rat(x)
			if r.IsInt() && r.Num().IsInt64() {
				return r.Num().Int64(), true
			}
			return nil, false
		}
		f, err := x.Float64()
		if err != nil || math.IsInf(f, 0) {
			return nil, false
		}
		return f, true
	case []any:
		o := make([]any, len(x))
		for i := range x {
			e, ok := toNative(x[i])
			if !ok {
				return nil, false
			}
			o[i] = e
		}
		return o, true
	case map[string]any:
		o := map[string]any{}
		for k, e := range x {
			n, ok := toNative(e)
			if !ok {
				return nil, false
			}
			o[k] = n
		}
		return o, true
	}
	return v, true
}

// yamlOf renders a document as block-style YAML and checks that it decodes back to the same generic value.
func yamlOf(doc any) (string, bool) {
	n, ok := toNative(doc)
	if !ok {
		return "", false
	}
	b, err := yaml.Marshal(n)
	if err != nil {
		return "", false
	}
	var back any
	if err := yaml.Unmarshal(b, &back); err != nil {
		return "", false
	}
	jb, err := json.Marshal(back)
	if err != nil {
		return "", false
	}
	bv, err := jsonv.Parse(string(jb))
	if err != nil || !jsonv.Equal(bv, doc) {
		return "", false
	}
	return string(b), true
}

type c17Pair struct {
	sc   *SCase
	prog *batch.Program
	m    *refmodel.Model
	doc  refmodel.Doc
	tv   refmodel.Verdict
	yaml string
	j, y *drv.Obs
}

func c17InScope(d *refmodel.Doc, tv refmodel.Verdict) bool {
	if tv == refmodel.Accept {
		return true
	}
	c := d.Class
	if strings.Contains(c, "type:") || strings.Contains(c, "enum-other") {
		return false // wrong-type documents: yaml.v3 converts scalars leniently; outside the statement
	}
	for _, ok := range []string{"absent", "num:", "str:", "arr:", "enum-nonmember:string"} {
		if strings.Contains(c, ok) {
			return true
		}
	}
	return false
}

func c17Cases(level int) []SCase {
	var cases []SCase
	cases = append(cases, c05Cases(level)...)
	cases = append(cases, c06Cases(level)...)
	cases = append(cases, c07Cases(0)...)
	e, _ := c08Cases(level)
	cases = append(cases, e...)
	for _, c := range c09Cases(level) {
		if !strings.HasPrefix(c.Axes["pos"], "anyof") { // (as below: a value only the other branch accepts meets the merged struct's field types, KF-C11-1)
			cases = append(cases, c)
		}
	}
	for _, c := range c04Family(0) {
		if !strings.HasPrefix(c.Axes["pos"], "anyof") { // anyOf decodes into the merged struct (KF-C11-1): C11's subject
			cases = append(cases, c)
		}
	}
	for _, sc := range leafFamily(0) {
		if sc.Axes["pos"] == "prop" || sc.Axes["pos"] == "nested" || sc.Axes["pos"] == "def" || (level >= 1 && !strings.HasPrefix(sc.Axes["pos"], "anyof")) {
			sc.ID = "C17/" + sc.ID
			cases = append(cases, sc)
		}
	}
	// a property whose Go name is the one the synthetic catch-all field would get, with and without a default, with and without
	// typed additional properties: whatever the two emitters make of it, they must make the same
	for _, n := range []string{"additionalProperties", "AdditionalProperties", "additional-properties"} {
		for _, dflt := range []bool{false, true} {
			for _, typedAddl := range []bool{false, true} {
				ap := J{"type": "string"}
				if dflt {
					ap["default"] = "d"
				}
				sch := J{"type": "object", "properties": J{"name": J{"type": "string", "minLength": 2}, n: ap, "count": J{"type": "integer", "minimum": 1}}, "required": A{"name"}}
				if typedAddl {
					sch["additionalProperties"] = J{"type": "string"}
				}
				cases = append(cases, SCase{ID: fmt.Sprintf("C17/catch-all-name/%s/default=%v/typed-additional=%v", n, dflt, typedAddl), Schema: sch, Cfg: baseCfg(),
					Axes: map[string]string{"pos": "catch-all-name", "leaf": n}})
			}
		}
	}
	// a type that is called like the local helper type of the generated methods (Plain), declared next to an object that collects typed
	// additional properties (whose clean-up block names that helper type): both emitters must pick the same names
	for _, n := range []string{"plain", "Plain", "Plain_0"} {
		for _, constrained := range []bool{false, true} {
			pd := J{"type": "object", "properties": J{"k": J{"type": "string"}}}
			if constrained {
				pd = J{"type": "object", "properties": J{"k": J{"type": "string", "minLength": 1}}, "required": A{"k"}}
			}
			sch := J{"type": "object", "properties": J{"name": J{"type": "string", "minLength": 2}, "p": J{"$ref": "#/$defs/" + n}}, "required": A{"name"},
				"additionalProperties": J{"type": "string"}, "$defs": J{n: pd}}
			cases = append(cases, SCase{ID: fmt.Sprintf("C17/helper-type-name/%s/constrained=%v", n, constrained), Schema: sch, Cfg: baseCfg(),
				Axes: map[string]string{"pos": "helper-type-name", "leaf": n}})
		}
	}
	// two structs of one run whose only property has the same Go field name but another JSON name (case / separator variants): yaml.v3 binds by
	// the exact tag, encoding/json also case-insensitively - what one struct's field is tagged with must not come from the other
	for _, pair := range [][2]string{{"Name", "name"}, {"a-b", "a_b"}, {"ID", "id"}, {"user id", "userId"}} {
		for _, required := range []bool{false, true} {
			inner := func(n string) J {
				o := J{"type": "object", "properties": J{n: J{"type": "string", "minLength": 2}}}
				if required {
					o["required"] = A{n}
				}
				return o
			}
			cases = append(cases, SCase{ID: fmt.Sprintf("C17/same-field-name-two-structs/%s|%s/required=%v", pair[0], pair[1], required), Cfg: baseCfg(),
				Axes:   map[string]string{"pos": "same-field-name", "leaf": pair[0] + "|" + pair[1]},
				Schema: J{"type": "object", "properties": J{"s0": inner(pair[0]), "s1": inner(pair[1])}, "required": A{"s0", "s1"}}})
		}
	}
	out := cases[:0:0]
	for _, c := range cases {
		c.Cfg.ExtraImports = true
		c.ID = strings.Replace(c.ID, "/", "+yaml/", 1)
		out = append(out, c)
	}
	// the same string family with a tag list that does not name yaml (--tags json): the YAML methods are still part of --extra-imports
	for i, c := range c06Cases(0) {
		if i%3 != 0 && level == 0 {
			continue
		}
		if pos := c.Axes["pos"]; pos != "props" && pos != "def" && pos != "root" && pos != "default" {
			continue // without yaml tags yaml.v3 binds a key to the lower-cased Go field name: only single lower-case words as property names
		}
		c.Cfg.ExtraImports = true
		c.Cfg.Tags = []string{"json"}
		c.ID = strings.Replace(c.ID, "/", "+yaml+tags-json/", 1)
		out = append(out, c)
	}
	return out
}

var c17Rules = []struct {
	name string
	pred func(p *c17Pair, diff string) bool
}{
	// format date / time wrapper types have no YAML support
	{"YAML_DATE_TIME_UNSUPPORTED", func(p *c17Pair, diff string) bool {
		return p.j.Err == "" && strings.Contains(p.y.Err, "parsing time") && strings.Contains(p.prog.Source, "types.Serializable")
	}},
	// a wrapped (mixed-type) enum listing a number: yaml.v3 yields int, the table holds float64
	{"YAML_MIXED_ENUM_NUMBER", func(p *c17Pair, diff string) bool {
		return p.j.Err == "" && strings.Contains(p.y.Err, "invalid value (expected one of") && strings.Contains(p.prog.Source, "Value interface{}")
	}},
	// null element of an array whose element type is a struct (object item, struct-wrapped enum): yaml.v3 drops the element
	{"YAML_NULL_ITEM_DROPPED", func(p *c17Pair, diff string) bool {
		return strings.Contains(diff, "elements, got") && strings.Contains(p.doc.Text, "[null") || strings.Contains(diff, "elements, got") && strings.Contains(p.doc.Text, ",null")
	}},
	{"DEFAULT_ENUM_NULL_REJECTED", func(p *c17Pair, diff string) bool {
		return strings.Contains(p.j.Err, "invalid value (expected one of") && p.y.Err == "" && strings.Contains(p.doc.Text, "null")
	}},
	{"NULL_TO_ADDL_STRUCT_ERRORS", func(p *c17Pair, diff string) bool {
		return strings.Contains(p.j.Err+p.j.Panic, "reflect.Set: value of type map[string]interface {}") && p.y.Err == "" && strings.Contains(p.doc.Text, "null")
	}},
	{"NULL_OBJECT_VALIDATES_ZERO", func(p *c17Pair, diff string) bool {
		return p.y.Err == "" && strings.Contains(p.doc.Text, "null") && (strings.Contains(p.j.Err, ": must be ") || strings.Contains(p.j.Err, "pattern match") || strings.Contains(p.j.Err, "length: must be"))
	}},
	{"FORMAT_DEF_NO_METHODS", func(p *c17Pair, diff string) bool {
		return c17FormatDef.MatchString(p.j.Err) && p.y.Err == ""
	}},
	{"ADDL_INT_VIA_FLOAT64", func(p *c17Pair, diff string) bool {
		return strings.Contains(diff, "additional") && strings.Contains(p.doc.Class, "num:extreme")
	}},
}

var c17FormatDef = regexp.MustCompile(`cannot unmarshal string into Go (struct field \S+|value) of type (time\.Time|netip\.Addr|types\.Serializable(Date|Time))`)

func c17(ctx *Ctx) {
	scs := c17Cases(ctx.Level)
	cases := make([]genlab.Case, len(scs))
	for i := range scs {
		cases[i] = scs[i].Case()
	}
	bt, err := batch.Build(ctx.Pool, "C17", cases)
	if err != nil {
		harnessFail("batch: %v", err)
	}
	defer bt.Cleanup()
	var tasks []batch.Task
	var pairs []*c17Pair
	for i, p := range bt.Programs {
		ctx.Run.Count("programs", 1)
		if p.GenErr != "" || p.BuildErr != "" {
			ctx.Run.Count("programs_not_generated_or_not_compiling(C01,C18)", 1)
			continue
		}
		hasS := false
		for _, t := range p.Types {
			if t == "S" {
				hasS = true
			}
		}
		if !hasS {
			continue
		}
		m, err := refmodel.New(filesOf(p.Case), "s.json")
		if err != nil {
			harnessFail("model: %v", err)
		}
		m.MinSized = p.Case.Cfg.MinSizedInts
		ctx.Run.Count("programs_executed", 1)
		for _, d := range m.Docs(1) {
			tv := m.Valid(d.V)
			if tv == refmodel.Unspec || !c17InScope(&d, tv) {
				ctx.Run.Count("documents_out_of_scope_skipped", 1)
				continue
			}
			y, ok := yamlOf(d.V)
			if !ok {
				ctx.Run.Count("documents_without_faithful_yaml_rendering_skipped", 1)
				continue
			}
			pr := &c17Pair{sc: &scs[i], prog: p, m: m, doc: d, tv: tv, yaml: y}
			pairs = append(pairs, pr)
			tasks = append(tasks, batch.Task{Prog: p, Mode: "json", Doc: d.Text, Tag: pr}, batch.Task{Prog: p, Mode: "yaml", Doc: y, Tag: pr})
		}
	}
	err = bt.Run(tasks, func(t *batch.Task, o *drv.Obs) {
		pr := t.Tag.(*c17Pair)
		oc := *o
		if t.Mode == "json" {
			pr.j = &oc
		} else {
			pr.y = &oc
		}
	})
	if err != nil {
		harnessFail("run: %v", err)
	}
	var listedAll []string
	for _, d := range c17ModelDevs {
		if ctx.Run.Listed(d) {
			listedAll = append(listedAll, d)
		}
	}
	outcomes := map[string]int{}
	for i, pr := range pairs {
		if pr.j == nil || pr.y == nil {
			harnessFail("missing observation for %s", pr.sc.ID)
		}
		ctx.Run.Eval(pr.prog.SourceSig+"|"+pr.doc.Text, pr.doc.Class != "base")
		jv, yv := "accept", "accept"
		if pr.j.Err != "" || pr.j.Panic != "" {
			jv = "reject"
		}
		if pr.y.Err != "" || pr.y.Panic != "" {
			yv = "reject"
		}
		outcomes["json="+jv+"/yaml="+yv]++
		if i == 0 || i == len(pairs)/2 || i == len(pairs)-1 {
			ctx.Run.Sample(map[string]any{"case": pr.sc.ID, "schema": pr.prog.Case.Files[0].Content, "json": pr.doc.Text, "yaml": pr.yaml, "json_verdict": jv, "yaml_verdict": yv})
		}
		replay := map[string]any{"kind": "decode-pair", "files": pr.prog.Case.Files, "cfg": pr.prog.Case.Cfg, "json": pr.doc.Text, "yaml": pr.yaml,
			"json_result": pr.j, "yaml_result": pr.y}
		// the JSON path of a program generated with --extra-imports must also agree with the reference model (the other
		// checks run their programs without the option)
		ov := refmodel.Accept
		if jv == "reject" {
			ov = refmodel.Reject
		}
		if ov != pr.tv && pr.sc.Axes["pos"] != "catch-all-name" { // (a property named like the catch-all field: KF-C14-2, only the parity of the two paths is judged here)
			if devs, ok := attribute(pr.m, pr.doc.V, ov, listedAll); ok {
				for _, dv := range devs {
					ctx.Run.Known(dv, fmt.Sprintf("%s doc=%s model=%s json=%s", pr.sc.ID, pr.doc.Text, pr.tv, jv), replay)
				}
			} else if pr.sc.Axes["leaf"] == "object-with-typed-additional" && strings.Contains(pr.doc.Class, "null") && ctx.Run.Listed("NULL_TO_ADDL_STRUCT_ERRORS") &&
				strings.Contains(pr.j.Err+pr.j.Panic, "reflect.Set: value of type map[string]interface {}") {
				// null for an object with declared properties and typed additional properties (KF-C03-3; see c09.go)
				ctx.Run.Known("NULL_TO_ADDL_STRUCT_ERRORS", fmt.Sprintf("%s doc=%s model=%s json=%s", pr.sc.ID, pr.doc.Text, pr.tv, jv), replay)
			} else if devs, ok := attribute(pr.m, pr.doc.V, ov, append(append([]string{}, listedAll...), c17Unjudged...)); ok && anyIn(devs, c17Unjudged) {
				// string / numeric / array-length constraints on map values and typed additional properties: no property
				// statement covers that cell (C05 / C06 name property and definition positions, C07 array elements), so the
				// reference model's verdict is not a claim there
				ctx.Run.Count("json_vs_model_in_a_cell_no_statement_covers(not judged)", 1)
			} else {
				ctx.Run.Violation("extra-imports-json-vs-model:"+pr.tv.String()+"/"+jv+":"+pr.sc.Axes["pos"]+":"+coarseClass(pr.doc.Class),
					fmt.Sprintf("%s: document %s: with --extra-imports the JSON path says %s (%s), the reference model says %s", pr.sc.ID, pr.doc.Text, jv, firstLine(pr.j.Err+pr.j.Panic), pr.tv), replay)
			}
		}
		diff := ""
		if jv != yv {
			diff = fmt.Sprintf("verdict differs: JSON %s (%s), YAML %s (%s)", jv, firstLine(pr.j.Err+pr.j.Panic), yv, firstLine(pr.y.Err+pr.y.Panic))
		} else if jv == "accept" {
			a, _ := jsonv.Parse(string(pr.j.Walk))
			b, _ := jsonv.Parse(string(pr.y.Walk))
			if d := jsonv.Diff("$", a, b); d != "" {
				diff = "decoded value differs (JSON vs YAML): " + d
			}
		}
		if diff == "" {
			continue
		}
		known := false
		for _, r := range c17Rules {
			if ctx.Run.Listed(r.name) && r.pred(pr, diff) {
				ctx.Run.Known(r.name, fmt.Sprintf("%s doc=%s: %s", pr.sc.ID, pr.doc.Text, diff), replay)
				known = true
				break
			}
		}
		if !known {
			ctx.Run.Violation("json-vs-yaml:"+jv+"/"+yv+":"+pr.sc.Axes["pos"]+":"+coarseClass(pr.doc.Class), fmt.Sprintf("%s: document %s: %s", pr.sc.ID, pr.doc.Text, diff), replay)
		}
	}
	for k, v := range outcomes {
		ctx.Run.Count("outcome:"+k, v)
	}
	ctx.Run.Assume("wrong-type documents are outside the statement (yaml.v3 converts scalars leniently)", "the YAML rendering is produced by yaml.v3 Marshal and must decode back to the JSON document's generic value, otherwise the document is skipped",
		"trusted: encoding/json, yaml.v3, reflect")
}

// deviations of the JSON path that may show in the families C17 re-uses
var c17ModelDevs = []string{"NULLABLE_DEF_UNENFORCED", "LEN_BYTES", "ZERO_LIMIT_IGNORED", "INT_BOUND_TRUNCATED", "FLOAT_MULTIPLEOF_TOLERANCE", "NESTED_ARRAY_OUTER_LIMITS", "UNENFORCED_NAMED_ARRAY", "UNENFORCED_ITEM_STRING",
	"UNENFORCED_ITEM_NUMERIC", "UNENFORCED_NAMED_ARRAY_ITEM_REQUIRED", "UNENFORCED_INLINE_STRUCT_PROPS", "REF_UNTYPED_DEF_IS_ANY", "SIZED_INT_ENUM_REJECTS_ALL", "DEFAULT_ENUM_NULL_REJECTED",
	"FORMAT_DEF_NO_METHODS", "NULL_TO_ADDL_STRUCT_ERRORS", "NULL_OBJECT_VALIDATES_ZERO", "REQUIRED_UNDECLARED_IGNORED", "UNENFORCED_MAPVAL_REQUIRED", "NULLTYPE_UNENFORCED", "ADDL_INT_TRUNCATES",
	"ADDL_NONPRIMITIVE_UNTYPED", "ANYOF_MERGED_FIELD_TYPES", "UNENFORCED_MAPVAL_STRING", "UNENFORCED_MAPVAL_NUMERIC",
	"ENUM_SIBLING_CONSTRAINTS_IGNORED", "INT_MULTIPLEOF_TRUNCATED", "FORMAT_STRING_CONSTRAINTS_IGNORED", "PATTERN_CR_DROPPED"}

// constraint families at positions no property statement covers (DESIGN.md §8, attachment matrix): explained, never judged
var c17Unjudged = []string{"UNENFORCED_MAPVAL_STRING", "UNENFORCED_MAPVAL_NUMERIC", "UNENFORCED_MAPVAL_ARRAY", "UNENFORCED_ADDL_STRING", "UNENFORCED_ADDL_NUMERIC", "UNENFORCED_ADDL_ARRAY"}

func anyIn(a, b []string) bool {
	for _, x := range a {
		for _, y := range b {
			if x == y {
				return true
			}
		}
	}
	return false
}

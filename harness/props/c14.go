package props

import (
	"fmt"
	"go/ast"
	"go/parser"
	"go/token"
	"reflect"
	"regexp"
	"sort"
	"strings"
	"unicode"

	shim "github.com/atombender/go-jsonschema/pkg/verifshim"

	"verif/drv"
	"verif/internal/batch"
	"verif/internal/genlab"
	"verif/internal/jsonv"
	"verif/internal/refmodel"
	"verif/internal/space"
)

func init() {
	register("C14", "model_checking", c14)
	ruleText["C14"] = "part A: explicit-state exploration of the identifier splitter: Identifierize (the real function, reached through a re-export in the build-time overlay) is called on every string of length <= 4 (thorough: <= 5) over one representative of each character class the code distinguishes (lower, upper, lower-case without upper-case mapping, title-case, caseless letter, modifier letter, decimal digit, full-width digit, letter-number, other number, '-', '_', space, '.', symbol, combining mark, '*') x 6 capitalisation lists; oracle = token.IsIdentifier and ast.IsExported; states = (splitter state, character class) pairs, transitions = consecutive pairs, both counted by replaying the classification beside the real call; " +
		"part B: every set of 2 (thorough: 3) sibling property names drawn from 32 names that collide after normalisation (case / separator variants, digits, '-', '+', '_', empty, '*', the words they map to, pre-suffixed names, keywords, caseless and ß names), as string properties and as object properties (type names); generated, compiled and run: field names valid and distinct, type names distinct, every tag carries exactly the original name, a document with a distinct value per key lands every value in its own field; " +
		"part C: file names and titles (--struct-name-from-title) over the same alphabet as root type names: the emitted file parses and type-checks"
}

var c14Alphabet = []struct {
	r     rune
	class string
}{
	{'a', "lower"}, {'B', "upper"}, {'ß', "lower-no-upper"}, {'ǅ', "title"}, {'日', "caseless"}, {'ʰ', "modifier"}, {'7', "digit"}, {'９', "fullwidth-digit"},
	{'Ⅷ', "letter-number"}, {'²', "other-number"}, {'-', "hyphen"}, {'_', "underscore"}, {' ', "space"}, {'.', "dot"}, {'$', "symbol"}, {'́', "combining"}, {'*', "star"},
}

// splitterState mirrors the classification of splitIdentifierByCaseAndSeparators (for coverage accounting only).
func splitterState(r rune) string {
	switch {
	case unicode.IsLower(r):
		return "lower"
	case unicode.IsUpper(r):
		return "upper"
	case unicode.IsDigit(r):
		return "number"
	case !unicode.IsLetter(r):
		return "delimiter"
	}
	return "nocase"
}

func c14PartA(ctx *Ctx) (states, transitions int) {
	maxLen := 4
	if ctx.Level >= 1 {
		maxLen = 5
	}
	capLists := [][]string{nil, {"ID"}, {"Id"}, {"URL", "ID"}, {"aB"}, {"日a"}, {"a"}, {"aa"}, {"aA", "ßa", "7a"}}
	stateSeen := map[string]bool{}
	transSeen := map[string]bool{}
	n := len(c14Alphabet)
	bad := map[string]int{}
	total := 0
	for ci, caps := range capLists {
		c := shim.NewCaser(caps, []string{".json"})
		var rec func(prefix []rune)
		rec = func(prefix []rune) {
			if len(prefix) > 0 || ci == 0 {
				s := string(prefix)
				id, pan := safeIdent(func() string { return c.Identifierize(s) })
				total++
				if pan != "" {
					bad["panic"]++
					if bad["panic"] <= 3 {
						ctx.Run.Violation("identifier-panic", fmt.Sprintf("C14/A: Identifierize(%q) with capitalizations %q panics: %s", s, caps, pan),
							map[string]any{"kind": "identifierize", "input": s, "capitalizations": caps, "panic": pan})
					}
					id = "Panicked" // already reported; keep the enumeration going
				}
				if !token.IsIdentifier(id) || !ast.IsExported(id) {
					sig := "invalid"
					if token.IsIdentifier(id) {
						sig = "unexported"
					}
					bad[sig]++
					if bad[sig] <= 3 {
						ctx.Run.Violation("identifier-"+sig, fmt.Sprintf("C14/A: Identifierize(%q) with capitalizations %q = %q is not a valid exported Go identifier", s, caps, id),
							map[string]any{"kind": "identifierize", "input": s, "capitalizations": caps, "result": id})
					}
				}
				if ci == 0 {
					prev := "nothing"
					for _, r := range prefix {
						st := splitterState(r)
						stateSeen[st+"/"+classOf(r)] = true
						transSeen[prev+"→"+st] = true
						prev = st
					}
				}
			}
			if len(prefix) == maxLen {
				return
			}
			for i := 0; i < n; i++ {
				rec(append(prefix, c14Alphabet[i].r))
			}
		}
		rec(nil)
	}
	for sig, cnt := range bad {
		if cnt > 3 {
			ctx.Run.Count("identifierize_"+sig+"_results", cnt)
		}
	}
	ctx.Run.EvalBulk("partA", total)
	ctx.Run.Count("identifierize_calls", total)
	// IdentifierFromFileName over the same strings (length <= 3) with extensions
	c := shim.NewCaser(nil, []string{".json", ".yaml"})
	var rec func(prefix []rune)
	cntF := 0
	rec = func(prefix []rune) {
		for _, ext := range []string{".json", ".yaml", "", ".txt"} {
			name := string(prefix) + ext
			id, pan := safeIdent(func() string { return c.IdentifierFromFileName("dir/" + name) })
			cntF++
			if pan != "" {
				ctx.Run.Violation("filename-identifier-panic", fmt.Sprintf("C14/A: IdentifierFromFileName(%q) panics: %s", name, pan),
					map[string]any{"kind": "identifierize", "input": name, "panic": pan})
				continue
			}
			if !token.IsIdentifier(id) || !ast.IsExported(id) {
				ctx.Run.Violation("filename-identifier", fmt.Sprintf("C14/A: IdentifierFromFileName(%q) = %q is not a valid exported Go identifier", name, id),
					map[string]any{"kind": "identifierize", "input": name, "result": id})
			}
		}
		if len(prefix) == 3 {
			return
		}
		for i := range c14Alphabet {
			rec(append(prefix, c14Alphabet[i].r))
		}
	}
	rec(nil)
	ctx.Run.EvalBulk("partA-filenames", cntF)
	ctx.Run.Cov["splitter_state_class_pairs_exercised"] = sortedKeysB(stateSeen)
	ctx.Run.Cov["splitter_transitions_exercised"] = sortedKeysB(transSeen)
	return len(stateSeen), len(transSeen)
}

func classOf(r rune) string {
	for _, a := range c14Alphabet {
		if a.r == r {
			return a.class
		}
	}
	return "?"
}

func sortedKeysB(m map[string]bool) []string {
	k := make([]string, 0, len(m))
	for s := range m {
		k = append(k, s)
	}
	sort.Strings(k)
	return k
}

var c14Names = []string{"a-b", "a_b", "aB", "AB", "a b", "ab", "Ab", "A-B", "1", "_1", "A1", "a1", "+", "_", "*", "Wildcard", "Blank", "Undefined", "AB_2", "a-b_2", "ab_2", "type", "func",
	"日本", "A日本", "ß", "Aß", "id", "ID", "Id", "a.b", "aʰb", "a%d", "100%"}

// names whose tags cannot carry them (tag syntax / encoding/json option syntax): listed finding
var c14TagBreaking = []string{`qu"ote`, "back`tick", `back\slash`, "new\nline", "com,ma", "-", "", "a²b", "x́"}

func c14Sets(level int) [][]string {
	var sets [][]string
	for i := 0; i < len(c14Names); i++ {
		for j := i + 1; j < len(c14Names); j++ {
			sets = append(sets, []string{c14Names[i], c14Names[j]})
			if level >= 1 {
				for k := j + 1; k < len(c14Names); k++ {
					sets = append(sets, []string{c14Names[i], c14Names[j], c14Names[k]})
				}
			}
		}
	}
	return sets
}

func c14(ctx *Ctx) {
	st, tr := c14PartA(ctx)
	var cases []SCase
	docOf := map[string]string{}
	wantOf := map[string]map[string]any{}
	add := func(id string, names []string, objects bool, required bool) {
		props := J{}
		doc := map[string]any{}
		for i, n := range names {
			if objects {
				props[n] = J{"type": "object", "properties": J{fmt.Sprintf("f%d", i): J{"type": "string"}}}
				doc[n] = map[string]any{fmt.Sprintf("f%d", i): fmt.Sprintf("v%d", i)}
			} else {
				props[n] = J{"type": "string"}
				doc[n] = fmt.Sprintf("v%d", i)
			}
		}
		s := J{"type": "object", "properties": props}
		if required {
			r := A{}
			for _, n := range names {
				r = append(r, n)
			}
			s["required"] = r
		}
		docOf[id] = jsonv.Text(doc)
		wantOf[id] = doc
		cases = append(cases, SCase{ID: id, Schema: s, Cfg: baseCfg(), Axes: map[string]string{"pos": "siblings", "leaf": strings.Join(names, "|")}})
	}
	for _, set := range c14Sets(ctx.Level) {
		q := fmt.Sprintf("%q", set)
		add("C14/B/strings/"+q, set, false, false)
		if len(set) == 2 {
			add("C14/B/objects/"+q, set, true, false)
			add("C14/B/required/"+q, set, false, true)
		}
	}
	// the two names of a pair as the only property of two different structs of one run: what is remembered about a field of the first
	// struct (its Go name is often the same) must not reach the second
	for _, set := range c14Sets(0) {
		for _, required := range []bool{false, true} {
			id := fmt.Sprintf("C14/B/two-structs/%q/required=%v", set, required)
			inner := func(n string) J {
				o := J{"type": "object", "properties": J{n: J{"type": "string"}}}
				if required {
					o["required"] = A{n}
				}
				return o
			}
			doc := map[string]any{"s0": map[string]any{set[0]: "v0"}, "s1": map[string]any{set[1]: "v1"}}
			cases = append(cases, SCase{ID: id, Cfg: baseCfg(), Axes: map[string]string{"pos": "siblings", "leaf": strings.Join(set, "|")},
				Schema: J{"type": "object", "properties": J{"s0": inner(set[0]), "s1": inner(set[1])}}})
			docOf[id] = jsonv.Text(doc)
			wantOf[id] = doc
		}
	}
	for _, n := range c14TagBreaking {
		add(fmt.Sprintf("C14/B/tag-breaking/%q", n), []string{n, "other"}, false, false)
		add(fmt.Sprintf("C14/B/tag-breaking-required/%q", n), []string{n, "other"}, false, true)
	}
	// composite-typed properties and definitions: the anyOf validator derives helper variable and type names from the type name
	// (first letter lowered / raised); names starting with a non-ASCII letter are where byte-wise slicing shows
	for _, n := range append(append([]string{}, c14Names...), "élan", "Émile", "ñu", "Ωmega", "ωmega", "Ǆx", "ǅx") {
		branches := A{J{"type": "object", "properties": J{"a": J{"type": "string"}}, "required": A{"a"}}, J{"type": "object", "properties": J{"b": J{"type": "integer"}}, "required": A{"b"}}}
		id := fmt.Sprintf("C14/B/anyof-property/%q", n)
		cases = append(cases, SCase{ID: id, Cfg: baseCfg(), Axes: map[string]string{"pos": "siblings", "leaf": n},
			Schema: J{"type": "object", "properties": J{n: J{"anyOf": branches}, "other": J{"type": "string"}}}})
		docOf[id] = jsonv.Text(map[string]any{n: map[string]any{"a": "v0"}, "other": "v1"})
		wantOf[id] = map[string]any{n: map[string]any{"a": "v0"}, "other": "v1"}
		id = fmt.Sprintf("C14/B/anyof-definition/%q", n)
		cases = append(cases, SCase{ID: id, Cfg: baseCfg(), Axes: map[string]string{"pos": "siblings", "leaf": n},
			Schema: J{"type": "object", "properties": J{"p": J{"$ref": "#/$defs/" + n}, "other": J{"type": "string"}}, "$defs": J{n: J{"type": "object", "anyOf": branches}}}})
		docOf[id] = jsonv.Text(map[string]any{"p": map[string]any{"a": "v0"}, "other": "v1"})
		wantOf[id] = map[string]any{"p": map[string]any{"a": "v0"}, "other": "v1"}
	}
	// names the generated code itself uses (helper types, locals, imported packages), as definition names of types that get
	// unmarshal methods and as property names, with and without the YAML pass
	for _, n := range []string{"Plain", "plain", "Plain_0", "raw", "value", "err", "j", "ok", "json", "yaml", "fmt", "errors", "reflect", "strings", "regexp", "math", "mapstructure", "time", "types", "error", "string", "len", "nil", "UnmarshalJSON", "unmarshalJSON", "UnmarshalYAML", "unmarshal_yaml"} {
		for _, extra := range []bool{false, true} {
			cfg := baseCfg()
			cfg.ExtraImports = extra
			inner := J{"type": "object", "properties": J{"k": J{"type": "string", "minLength": 1, "pattern": "^v"}, n: J{"type": "integer", "minimum": 0, "multipleOf": 1}}, "required": A{"k"}, "additionalProperties": J{"type": "string"}}
			id := fmt.Sprintf("C14/B/internal-name/%q/extra=%v", n, extra)
			cases = append(cases, SCase{ID: id, Cfg: cfg, Axes: map[string]string{"pos": "siblings", "leaf": n},
				Schema: J{"type": "object", "properties": J{"p": J{"$ref": "#/$defs/" + n}, n: J{"type": "string"}}, "required": A{"p"}, "$defs": J{n: inner}}})
			doc := map[string]any{"p": map[string]any{"k": "v0", n: jsonv.MustParse("7")}, n: "v1"}
			docOf[id] = jsonv.Text(doc)
			wantOf[id] = doc
		}
	}
	// a property named like the synthetic field
	cases = append(cases, SCase{ID: "C14/B/additionalProperties-name", Cfg: baseCfg(), Axes: map[string]string{"pos": "siblings", "leaf": "additionalProperties"},
		Schema: J{"type": "object", "properties": J{"additionalProperties": J{"type": "string"}, "AdditionalProperties": J{"type": "string"}}, "additionalProperties": J{"type": "integer"}}})
	docOf["C14/B/additionalProperties-name"] = `{"additionalProperties":"v0","AdditionalProperties":"v1","extra":7}`
	wantOf["C14/B/additionalProperties-name"] = map[string]any{"additionalProperties": "v0", "AdditionalProperties": "v1", refmodel.AdditionalKey: map[string]any{"extra": jsonv.MustParse("7")}}
	c14Batch(ctx, cases, docOf, wantOf)
	// definition names that collide three ways, flat and with a nested reference from the second to the third: distinct
	// schema types must get distinct type names - judged behaviourally (every value decodes per its own definition)
	var defCases []SCase
	for _, nested := range []bool{false, true} {
		defCases = append(defCases, collisionTriples("C14", func(i int) J {
			return []J{{"type": "object", "properties": J{"a": J{"type": "string"}}, "required": A{"a"}}, {"type": "object", "properties": J{"b": J{"type": "integer"}}, "required": A{"b"}},
				{"type": "object", "properties": J{"c": J{"type": "boolean"}}}}[i]
		}, nested)...)
	}
	// two colliding names where one definition refers to the other (forward: the earlier-generated refers to the later one)
	for _, fw := range []bool{true, false} {
		first := J{"type": "object", "properties": J{"a": J{"type": "string"}}, "required": A{"a"}}
		second := J{"type": "object", "properties": J{"b": J{"type": "integer"}}, "required": A{"b"}}
		leaf := "backward-ref-pair"
		if fw {
			first["properties"].(J)["toOther"] = J{"$ref": "#/$defs/sku-code"}
			leaf = "forward-ref-pair"
		} else {
			second["properties"].(J)["toOther"] = J{"$ref": "#/$defs/SkuCode"}
		}
		defCases = append(defCases, SCase{ID: "C14/same-type-name/" + leaf, Cfg: baseCfg(), Axes: map[string]string{"pos": "same-type-name", "leaf": leaf},
			Schema: J{"type": "object", "properties": J{"p0": J{"$ref": "#/$defs/SkuCode"}, "p1": J{"$ref": "#/$defs/sku-code"}}, "$defs": J{"SkuCode": first, "sku-code": second}}})
	}
	// a type whose schema is an anyOf (member types X_0, X_1 ...) and a different schema that normalises to the same name X: the
	// suffix given to the colliding one must not run into the member type names; both orders of generation
	for _, anyFirst := range []bool{true, false} {
		branches := A{J{"type": "object", "properties": J{"a": J{"type": "string"}}, "required": A{"a"}}, J{"type": "object", "properties": J{"b": J{"type": "integer"}}, "required": A{"b"}}}
		anyDef := J{"type": "object", "anyOf": branches}
		plain := J{"type": "object", "properties": J{"c": J{"type": "boolean"}}, "required": A{"c"}}
		defs := J{"sku.code": anyDef, "sku_code": plain} // definitions are generated in name order: '.' sorts before '_'
		leaf := "anyof-then-plain"
		if !anyFirst {
			defs = J{"sku.code": plain, "sku_code": anyDef}
			leaf = "plain-then-anyof"
		}
		defCases = append(defCases, SCase{ID: "C14/same-type-name/" + leaf, Cfg: baseCfg(), Axes: map[string]string{"pos": "same-type-name", "leaf": leaf},
			Schema: J{"type": "object", "properties": J{"p0": J{"$ref": "#/$defs/sku.code"}, "p1": J{"$ref": "#/$defs/sku_code"}}, "$defs": defs}})
	}
	// a definition whose name normalises to the name of the root type (file s.json, type S): both are distinct schema types. Definitions are
	// declared first, so the definition is S and the root the next free name, S_1; the documents are decoded into that type
	var rootVsDef []SCase
	for _, n := range []string{"s", "S"} {
		rootVsDef = append(rootVsDef, SCase{ID: "C14/same-type-name/definition-named-like-the-root/" + n, Cfg: baseCfg(), Axes: map[string]string{"pos": "same-type-name", "leaf": "root-vs-definition"},
			Schema: J{"type": "object", "properties": J{"outer": J{"type": "integer"}, "t": J{"$ref": "#/$defs/" + n}}, "required": A{"outer"},
				"$defs": J{n: J{"type": "object", "properties": J{"inner": J{"type": "string"}}, "required": A{"inner"}}}}})
	}
	runBehaviour(ctx, behaviour{Name: "root-vs-definition", Cases: rootVsDef, Values: true, Type: "S_1", Devs: []string{"LEN_BYTES"},
		OnNoType: func(sc *SCase, p *batch.Program) {
			ctx.Run.Violation("root-type-not-declared", fmt.Sprintf("%s: a definition takes the name of the root type and the root schema is not declared under a name of its own (types declared: %v)", sc.ID, p.Types),
				map[string]any{"kind": "gen", "files": sc.Case().Files, "args": sc.Case().Args, "cfg": sc.Case().Cfg})
		},
		OnBuildErr: func(sc *SCase, msg string) {
			ctx.Run.Violation("definition-names-not-compiling", fmt.Sprintf("%s: emitted code does not compile: %s", sc.ID, firstLine(msg)),
				map[string]any{"kind": "gen", "files": sc.Case().Files, "args": sc.Case().Args, "cfg": sc.Case().Cfg})
		}})
	// two colliding definition names, the second one (renamed with a suffix) resolved as an allOf member before / after the first is declared
	for _, order := range []int{0, 1} {
		up, low := J{"type": "object", "properties": J{"sku": J{"type": "string"}}, "required": A{"sku"}}, J{"type": "object", "properties": J{"code": J{"type": "integer"}}, "required": A{"code"}}
		plainRef, member := "Item", "item"
		if order == 1 {
			plainRef, member = "item", "Item"
			up, low = low, up
		}
		defCases = append(defCases, SCase{ID: fmt.Sprintf("C14/same-type-name/renamed-definition-as-allOf-member/%d", order), Cfg: baseCfg(), Axes: map[string]string{"pos": "same-type-name", "leaf": "renamed-allOf-member"},
			Schema: J{"type": "object", "properties": J{"a": J{"$ref": "#/$defs/A"}, "b": J{"$ref": "#/$defs/B"}},
				"$defs": J{"A": J{"type": "object", "properties": J{"i": J{"$ref": "#/$defs/" + plainRef}}},
					"B":    J{"type": "object", "properties": J{"content": J{"allOf": A{J{"$ref": "#/$defs/" + member}, J{"type": "object", "properties": J{"n": J{"type": "integer"}}}}}}},
					"Item": up, "item": low}}})
	}
	runBehaviour(ctx, behaviour{Name: "defnames", Cases: defCases, Values: true, Devs: []string{"LEN_BYTES", "ANYOF_MERGED_FIELD_TYPES"},
		OnBuildErr: func(sc *SCase, msg string) {
			if sc.Axes["leaf"] == "plain-then-anyof" && reSuffixedMember.MatchString(msg) && ctx.Run.Listed("ANYOF_SUFFIXED_NAME_MEMBERS_UNDEFINED") {
				ctx.Run.Known("ANYOF_SUFFIXED_NAME_MEMBERS_UNDEFINED", sc.ID+": "+firstLine(msg), map[string]any{"kind": "gen", "files": sc.Case().Files, "args": sc.Case().Args, "cfg": sc.Case().Cfg})
				return
			}
			if sc.Axes["leaf"] == "forward-ref-pair" && strings.Contains(msg, "redeclared") && ctx.Run.Listed("COLLIDING_NAME_FORWARD_REF_DECLARED_TWICE") {
				ctx.Run.Known("COLLIDING_NAME_FORWARD_REF_DECLARED_TWICE", sc.ID+": "+firstLine(msg), map[string]any{"kind": "gen", "files": sc.Case().Files, "args": sc.Case().Args, "cfg": sc.Case().Cfg})
				return
			}
			ctx.Run.Violation("definition-names-not-compiling", fmt.Sprintf("%s: colliding definition names: emitted code does not compile: %s", sc.ID, firstLine(msg)),
				map[string]any{"kind": "gen", "files": sc.Case().Files, "args": sc.Case().Args, "cfg": sc.Case().Cfg})
		}})
	// the same two names with contents that differ in exactly one keyword: the second definition must not be folded into the first
	runBehaviour(ctx, behaviour{Name: "same-name-pairs", Cases: sameNamePairs("C14"), Values: true, K: 1,
		Devs: []string{"LEN_BYTES", "FLOAT_MULTIPLEOF_TOLERANCE", "NULL_OBJECT_VALIDATES_ZERO", "DEFAULT_ENUM_NULL_REJECTED", "SAME_NAME_ANYOF_DIFFERENCE_IGNORED", "ANYOF_MERGED_FIELD_TYPES"},
		DocFilter: func(sc *SCase, d *refmodel.Doc, tv refmodel.Verdict) bool {
			for i := 0; i < len(d.Text); i++ {
				if d.Text[i] >= 0x80 {
					return false // lengths in characters vs bytes are C06's subject
				}
			}
			return true
		},
		OnBuildErr: func(sc *SCase, msg string) {
			ctx.Run.Violation("definition-names-not-compiling", fmt.Sprintf("%s: colliding definition names: emitted code does not compile: %s", sc.ID, firstLine(msg)),
				map[string]any{"kind": "gen", "files": sc.Case().Files, "args": sc.Case().Args, "cfg": sc.Case().Cfg})
		}})
	c14PartC(ctx)
	ctx.Run.Cov["states"] = st
	ctx.Run.Cov["transitions"] = tr
	ctx.Run.Cov["traces_validated_against_impl"] = ctx.Run.Counter("identifierize_calls")
	ctx.Run.Assume("names containing '\"', '`', '\\', a newline or ',' and the names '-' and '' cannot be carried by a struct tag / are interpreted by encoding/json (listed finding); they are exercised separately",
		"character classes are represented by one rune each", "trusted: go/token, go/ast, go/parser, encoding/json")
}

func c14Batch(ctx *Ctx, scs []SCase, docOf map[string]string, wantOf map[string]map[string]any) {
	cases := make([]genlab.Case, len(scs))
	for i := range scs {
		cases[i] = scs[i].Case()
	}
	bt, err := batch.Build(ctx.Pool, "C14", cases)
	if err != nil {
		harnessFail("batch: %v", err)
	}
	defer bt.Cleanup()
	var tasks []batch.Task
	tagBreaking := func(sc *SCase) bool {
		return strings.Contains(sc.ID, "tag-breaking")
	}
	for i, p := range bt.Programs {
		sc := &scs[i]
		replay := map[string]any{"kind": "gen", "files": p.Case.Files, "args": p.Case.Args, "cfg": p.Case.Cfg}
		ctx.Run.Count("sibling_programs", 1)
		if p.GenErr != "" {
			if strings.HasPrefix(p.GenErr, "ERROR") {
				ctx.Run.Count("sibling_sets_rejected_by_generator", 1)
				continue
			}
			ctx.Run.Violation("siblings-generator-failure", fmt.Sprintf("%s: %s", sc.ID, firstLine(p.GenErr)), replay)
			continue
		}
		if p.BuildErr != "" {
			if tagBreaking(sc) && ctx.Run.Listed("TAG_BREAKING_NAMES") {
				ctx.Run.Known("TAG_BREAKING_NAMES", sc.ID+": does not compile: "+firstLine(p.BuildErr), replay)
				continue
			}
			if sc.Axes["leaf"] == "additionalProperties" && strings.Contains(p.BuildErr, "AdditionalProperties redeclared") && ctx.Run.Listed("ADDITIONAL_PROPERTIES_NAME_COLLISION") {
				ctx.Run.Known("ADDITIONAL_PROPERTIES_NAME_COLLISION", sc.ID+": "+firstLine(p.BuildErr), replay)
				continue
			}
			ctx.Run.Violation("siblings-not-compiling", fmt.Sprintf("%s: emitted code does not compile: %s", sc.ID, firstLine(p.BuildErr)), replay)
			continue
		}
		if msg := c14Structure(sc, p); msg != "" {
			if tagBreaking(sc) && ctx.Run.Listed("TAG_BREAKING_NAMES") {
				ctx.Run.Known("TAG_BREAKING_NAMES", sc.ID+": "+msg, replay)
			} else {
				ctx.Run.Violation("siblings-structure:"+relSig(msg), fmt.Sprintf("%s: %s", sc.ID, msg), replay)
			}
			continue
		}
		tasks = append(tasks, batch.Task{Prog: p, Mode: "json", Doc: docOf[sc.ID], Tag: sc})
	}
	err = bt.Run(tasks, func(t *batch.Task, o *drv.Obs) {
		sc := t.Tag.(*SCase)
		ctx.Run.Eval(t.Prog.SourceSig+"|"+t.Doc, true)
		replay := replayOf(t.Prog.Case, "S", "json", t.Doc, wantOf[sc.ID], string(o.Walk))
		fail := func(msg string) {
			if tagBreaking(sc) && ctx.Run.Listed("TAG_BREAKING_NAMES") {
				ctx.Run.Known("TAG_BREAKING_NAMES", sc.ID+": "+msg, replay)
				return
			}
			ctx.Run.Violation("siblings-binding", fmt.Sprintf("%s: document %s: %s", sc.ID, t.Doc, msg), replay)
		}
		if o.Err != "" || o.Panic != "" {
			fail("rejected: " + firstLine(o.Err+o.Panic))
			return
		}
		got, err := jsonv.Parse(string(o.Walk))
		if err != nil {
			harnessFail("walk: %v", err)
		}
		if d := jsonv.Diff("$", jsonv.Norm(stripAdditionalKey(wantOf[sc.ID])), stripAdditionalKeyAny(got)); d != "" {
			fail("a value did not land in the field bound to its key: " + d)
		}
	})
	if err != nil {
		harnessFail("run: %v", err)
	}
}

func stripAdditionalKey(m map[string]any) any {
	o := map[string]any{}
	for k, v := range m {
		if k == refmodel.AdditionalKey {
			o["additional"] = v
		} else {
			o[k] = v
		}
	}
	return o
}

func stripAdditionalKeyAny(v any) any {
	if m, ok := v.(map[string]any); ok {
		o := map[string]any{}
		for k, e := range m {
			if k == refmodel.AdditionalKey {
				o["additional"] = e
			} else {
				o[k] = e
			}
		}
		return o
	}
	return v
}

// c14Structure: field names valid, exported, distinct; type names distinct; each field's tags carry exactly the original name.
func c14Structure(sc *SCase, p *batch.Program) string {
	fset := token.NewFileSet()
	f, err := parser.ParseFile(fset, "g.go", p.Source, parser.SkipObjectResolution)
	if err != nil {
		return "does not parse: " + err.Error()
	}
	props, _ := sc.Schema["properties"].(J)
	want := map[string]bool{}
	for n := range props {
		want[n] = true
	}
	types := map[string]int{}
	for _, d := range f.Decls {
		gd, ok := d.(*ast.GenDecl)
		if !ok || gd.Tok != token.TYPE {
			continue
		}
		for _, sp := range gd.Specs {
			ts := sp.(*ast.TypeSpec)
			types[ts.Name.Name]++
			if !ast.IsExported(ts.Name.Name) {
				return fmt.Sprintf("type name %q is not exported", ts.Name.Name)
			}
			st, ok := ts.Type.(*ast.StructType)
			if !ok || ts.Name.Name != "S" {
				continue
			}
			seen := map[string]bool{}
			found := map[string]bool{}
			for _, fl := range st.Fields.List {
				for _, n := range fl.Names {
					if seen[n.Name] {
						return fmt.Sprintf("field name %q declared twice", n.Name)
					}
					seen[n.Name] = true
					if !token.IsIdentifier(n.Name) || !ast.IsExported(n.Name) {
						return fmt.Sprintf("field name %q is not a valid exported identifier", n.Name)
					}
					if fl.Tag == nil {
						continue
					}
					tag := reflect.StructTag(strings.Trim(fl.Tag.Value, "`"))
					if _, isRemain := tag.Lookup("mapstructure"); isRemain && strings.Contains(tag.Get("mapstructure"), "remain") {
						continue
					}
					var key string
					for i, tn := range []string{"json", "yaml", "mapstructure"} {
						v, ok := tag.Lookup(tn)
						if !ok {
							return fmt.Sprintf("field %s lacks the %s tag", n.Name, tn)
						}
						k := strings.TrimSuffix(v, ",omitempty")
						if i == 0 {
							key = k
						} else if k != key {
							return fmt.Sprintf("field %s: tags disagree (%q vs %q)", n.Name, key, k)
						}
					}
					if !want[key] {
						return fmt.Sprintf("field %s is tagged %q, which is not a property name of the schema", n.Name, key)
					}
					if found[key] {
						return fmt.Sprintf("two fields are tagged %q", key)
					}
					found[key] = true
				}
			}
			for k := range want {
				if !found[k] {
					return fmt.Sprintf("no field is tagged with the property name %q", k)
				}
			}
		}
	}
	for n, c := range types {
		if c > 1 {
			return fmt.Sprintf("type %s declared %d times", n, c)
		}
	}
	return ""
}

// c14PartC: file names and titles as root type names.
func c14PartC(ctx *Ctx) {
	var jobs []genlab.Job
	var ids []string
	schema := J{"type": "object", "properties": J{"p": J{"type": "string"}, "o": J{"type": "object", "properties": J{"k": J{"type": "integer"}}, "required": A{"k"}}}, "required": A{"p"}}
	maxLen := 2
	if ctx.Level >= 1 {
		maxLen = 3
	}
	var rec func(prefix []rune)
	rec = func(prefix []rune) {
		if len(prefix) > 0 {
			s := string(prefix)
			// as a title
			ts := space.Clone(schema)
			ts["title"] = s
			ts["properties"].(J)["o"].(J)["title"] = s + "x"
			gc := genlab.Case{ID: "C14/C/title/" + s, Files: []genlab.File{{Path: "s.json", Content: space.Text(ts)}}, Args: []string{"s.json"}, Cfg: genlab.Cfg{Package: "s", ResolveExt: []string{".json"}, StructNameFromTitle: true}}
			jobs = append(jobs, genlab.Job{Op: "gen", Case: &gc, Check: true})
			ids = append(ids, gc.ID)
			// as a file name (no path separators, no NUL)
			if !strings.ContainsAny(s, "/\x00") && s != "." && s != ".." {
				fc := genlab.Case{ID: "C14/C/file/" + s, Files: []genlab.File{{Path: s + ".json", Content: space.Text(schema)}}, Args: []string{s + ".json"}, Cfg: genlab.Cfg{Package: "s", ResolveExt: []string{".json"}}}
				jobs = append(jobs, genlab.Job{Op: "gen", Case: &fc, Check: true})
				ids = append(ids, fc.ID)
			}
		}
		if len(prefix) == maxLen {
			return
		}
		for i := range c14Alphabet {
			rec(append(prefix, c14Alphabet[i].r))
		}
	}
	rec(nil)
	err := ctx.Pool.Run(jobs, func(j *genlab.Job, r *genlab.Resp) {
		ctx.Run.Eval(ids[j.Seq], true)
		ctx.Run.Count("root_name_cases", 1)
		replay := map[string]any{"kind": "gen", "files": j.Case.Files, "args": j.Case.Args, "cfg": j.Case.Cfg}
		if r.Crash != "" || r.Hang || r.Res.Panic != "" {
			ctx.Run.Violation("root-name-generator-failure", fmt.Sprintf("%s: %s", ids[j.Seq], firstLine(r.Crash+r.Res.Panic)), replay)
			return
		}
		if r.Res.Err != "" {
			ctx.Run.Count("root_name_cases_rejected", 1)
			return
		}
		for _, d := range r.Diags {
			if !d.OK() {
				ctx.Run.Violation("root-name-invalid-go", fmt.Sprintf("%s: emitted code is not valid Go: %s", ids[j.Seq], trunc(d.Summary(), 300)), replay)
			}
		}
	})
	if err != nil {
		harnessFail("pool: %v", err)
	}
}

// safeIdent runs one call of the real naming code; a panic in it is an observation (the generator would crash on that name), not a harness fault.
func safeIdent(f func() string) (id, panicked string) {
	defer func() {
		if r := recover(); r != nil {
			panicked = fmt.Sprint(r)
		}
	}()
	return f(), ""
}

var reSuffixedMember = regexp.MustCompile(`undefined: \w+_\d+_\d+`)

package props

import (
	"encoding/json"
	"fmt"
	"math/big"
	"os"
	"sort"
	"strings"

	"verif/drv"
	"verif/internal/batch"
	"verif/internal/genlab"
	"verif/internal/jsonv"
	"verif/internal/refmodel"
)

// behaviour describes one differential run "generated code vs reference model".
type behaviour struct {
	Name    string
	Cases   []SCase
	K       int    // document deviations (1 or 2)
	Mode    string // json (default) | yaml
	Values  bool   // also compare decoded value trees and the re-marshalled JSON with the model's expectation
	Devs    []string
	Type    string // target type (default S)
	MinSize bool
	// KnownMismatch may name the listed finding that explains a verdict mismatch the reference model cannot express (it sees values, not bytes).
	KnownMismatch func(sc *SCase, d *refmodel.Doc, o *drv.Obs) string
	// Respell: every document is also fed in a second spelling of the same JSON value (jsonv.Respell); verdict and value must not change.
	Respell bool
	// ModelInit may switch on check-specific strictness of the reference model.
	ModelInit func(m *refmodel.Model)
	// DocFilter may drop documents (return false) that are outside the property's quantifier.
	DocFilter func(sc *SCase, d *refmodel.Doc, trueVerdict refmodel.Verdict) bool
	// DocGen overrides the generic document enumeration.
	DocGen func(sc *SCase, m *refmodel.Model) []refmodel.Doc
	// OnGenErr / OnBuildErr decide what a non-generated / non-compiling program means for this property.
	OnGenErr   func(sc *SCase, msg string)
	OnBuildErr func(sc *SCase, msg string)
	// OnNoType is called when the compiled program does not declare the target type.
	OnNoType func(sc *SCase, p *batch.Program)
	// OnProgram is called once per compiled program.
	OnProgram func(sc *SCase, p *batch.Program)
	// Extra is called for every observation after the standard comparison.
	Extra func(sc *SCase, m *refmodel.Model, d *refmodel.Doc, tv refmodel.Verdict, o *drv.Obs)
}

type docTag struct {
	sc    *SCase
	model *refmodel.Model
	doc   refmodel.Doc
	tv    refmodel.Verdict
}

func filesOf(c genlab.Case) map[string]string {
	m := map[string]string{}
	for _, f := range c.Files {
		m[f.Path] = f.Content
	}
	return m
}

func replayOf(c genlab.Case, typ, mode string, doc string, want, got any) map[string]any {
	return map[string]any{"kind": "decode", "files": c.Files, "args": c.Args, "cfg": c.Cfg, "type": typ, "mode": mode,
		"document": doc, "model": want, "observed": got}
}

// runBehaviour executes the differential and reports into ctx.Run.
func runBehaviour(ctx *Ctx, b behaviour) {
	if b.Mode == "" {
		b.Mode = "json"
	}
	if b.K == 0 {
		b.K = 1
	}
	if b.Respell && b.KnownMismatch == nil {
		b.KnownMismatch = respelledFormatEscape
	}
	var listed []string
	for _, d := range b.Devs {
		if ctx.Run.Listed(d) {
			listed = append(listed, d)
		}
	}
	cases := make([]genlab.Case, len(b.Cases))
	for i := range b.Cases {
		cases[i] = b.Cases[i].Case()
	}
	bt, err := batch.Build(ctx.Pool, ctx.Prop+"-"+b.Name, cases)
	if err != nil {
		harnessFail("batch %s: %v", b.Name, err)
	}
	defer bt.Cleanup()
	var tasks []batch.Task
	classes := map[string]int{}
	for i, p := range bt.Programs {
		sc := &b.Cases[i]
		ctx.Run.Count("programs", 1)
		if p.GenErr != "" {
			ctx.Run.Count("programs_not_generated", 1)
			if os.Getenv("VERIF_DEBUG") != "" {
				fmt.Printf("DEBUG gen error %s: %s\n", sc.ID, firstLine(p.GenErr))
			}
			if b.OnGenErr != nil {
				b.OnGenErr(sc, p.GenErr)
			}
			continue
		}
		if p.BuildErr != "" {
			ctx.Run.Count("programs_not_compiling(C01)", 1)
			if os.Getenv("VERIF_DEBUG") != "" {
				fmt.Printf("DEBUG build error %s: %s\n", sc.ID, firstLine(p.BuildErr))
			}
			if b.OnBuildErr != nil {
				b.OnBuildErr(sc, p.BuildErr)
			}
			continue
		}
		typ := b.Type
		if typ == "" {
			typ = "S"
		}
		found := false
		for _, t := range p.Types {
			if t == typ {
				found = true
			}
		}
		if !found {
			ctx.Run.Count("programs_without_root_type", 1)
			if b.OnNoType != nil {
				b.OnNoType(sc, p)
			}
			continue
		}
		m, err := refmodel.New(filesOf(p.Case), sc.MainPath())
		if err != nil {
			harnessFail("model for %s: %v", sc.ID, err)
		}
		m.MinSized = p.Case.Cfg.MinSizedInts
		if b.ModelInit != nil {
			b.ModelInit(m)
		}
		ctx.Run.Count("programs_executed", 1)
		if b.OnProgram != nil {
			b.OnProgram(sc, p)
		}
		var docs []refmodel.Doc
		if b.DocGen != nil {
			docs = b.DocGen(sc, m)
		} else {
			docs = m.Docs(b.K)
		}
		for _, d := range docs {
			tv := m.Valid(d.V)
			if tv == refmodel.Unspec {
				ctx.Run.Count("documents_unspecified_skipped", 1)
				continue
			}
			if b.DocFilter != nil && !b.DocFilter(sc, &d, tv) {
				ctx.Run.Count("documents_out_of_scope_skipped", 1)
				continue
			}
			classes[coarseClass(d.Class)]++
			tasks = append(tasks, batch.Task{Prog: p, Type: typ, Mode: b.Mode, Doc: d.Text, Tag: &docTag{sc, m, d, tv}})
			if b.Respell && b.Mode == "json" {
				rd := d
				rd.Text = jsonv.Respell(d.V)
				rd.Class = d.Class + "/respelled"
				if back, err := jsonv.Parse(rd.Text); err != nil || !jsonv.Equal(back, d.V) {
					harnessFail("respelling of %s does not parse back to the same value: %q", d.Text, rd.Text)
				}
				classes["respelled"]++
				tasks = append(tasks, batch.Task{Prog: p, Type: typ, Mode: b.Mode, Doc: rd.Text, Tag: &docTag{sc, m, rd, tv}})
			}
		}
	}
	outcomes := map[string]int{}
	err = bt.Run(tasks, func(t *batch.Task, o *drv.Obs) {
		tag := t.Tag.(*docTag)
		sc, m, d, tv := tag.sc, tag.model, tag.doc, tag.tv
		key := t.Prog.SourceSig + "|" + d.Text
		ctx.Run.Eval(key, d.Class != "base")
		if o.Skip != "" {
			harnessFail("driver skipped %s: %s", sc.ID, o.Skip)
		}
		ov := refmodel.Accept
		if o.Err != "" || o.Panic != "" {
			ov = refmodel.Reject
		}
		outcomes[tv.String()+"/"+ov.String()]++
		if len(tasks) > 0 && (t == &tasks[0] || t == &tasks[len(tasks)/2] || t == &tasks[len(tasks)-1]) {
			ctx.Run.Sample(map[string]any{"case": sc.ID, "schema": t.Prog.Case.Files[0].Content, "options": t.Prog.Case.Cfg,
				"document": d.Text, "class": d.Class, "model": tv.String(), "observed": ov.String()})
		}
		if o.Panic != "" && ctx.Prop != "C19" {
			ctx.Run.Count("decode_panics(C19)", 1)
		}
		if ov != tv {
			devs, ok := attribute(m, d.V, ov, listed)
			if !ok && b.KnownMismatch != nil {
				if k := b.KnownMismatch(sc, &d, o); k != "" && ctx.Run.Listed(k) {
					devs, ok = []string{k}, true
				}
			}
			if ok {
				for _, dv := range devs {
					ctx.Run.Known(dv, fmt.Sprintf("%s doc=%s model=%s observed=%s (%s)", sc.ID, d.Text, tv, ov, firstLine(o.Err+o.Panic)),
						replayOf(t.Prog.Case, t.Type, t.Mode, d.Text, tv.String(), ov.String()))
				}
			} else {
				m.Dev = map[string]bool{}
				m.Valid(d.V)
				sig := fmt.Sprintf("verdict:%s→%s:%s:%s", tv, ov, sc.Axes["pos"], coarseClass(d.Class))
				ctx.Run.Violation(sig, fmt.Sprintf("%s: document %s: model says %s (%s), generated code says %s (%s)", sc.ID, d.Text, tv, m.Why, ov, firstLine(o.Err+o.Panic)),
					replayOf(t.Prog.Case, t.Type, t.Mode, d.Text, tv.String()+": "+m.Why, ov.String()+": "+o.Err+o.Panic))
			}
		} else if b.Values && ov == refmodel.Accept {
			compareValues(ctx, sc, t, m, d, o, listed)
		}
		if b.Extra != nil {
			b.Extra(sc, m, &d, tv, o)
		}
	})
	if err != nil {
		harnessFail("batch run %s: %v", b.Name, err)
	}
	for k, v := range classes {
		ctx.Run.Count("class:"+k, v)
	}
	for k, v := range outcomes {
		ctx.Run.Count("outcome(model/observed):"+k, v)
	}
}

func classSig(c string) string {
	if i := strings.Index(c, "="); i > 0 {
		c = c[:i]
	}
	return c
}

func firstLine(s string) string {
	if i := strings.IndexByte(s, '\n'); i >= 0 {
		s = s[:i]
	}
	if len(s) > 200 {
		s = s[:200]
	}
	return s
}

// attribute finds the smallest set of listed deviations under which the model predicts the observed verdict.
func attribute(m *refmodel.Model, doc any, observed refmodel.Verdict, listed []string) ([]string, bool) {
	defer func() { m.Dev = map[string]bool{} }()
	for _, d := range listed {
		m.Dev = map[string]bool{d: true}
		if v := m.Valid(doc); (v == observed || v == refmodel.Unspec) && len(m.Fired) > 0 {
			return []string{d}, true
		}
	}
	for i := 0; i < len(listed); i++ {
		for j := i + 1; j < len(listed); j++ {
			m.Dev = map[string]bool{listed[i]: true, listed[j]: true}
			if v := m.Valid(doc); (v == observed || v == refmodel.Unspec) && len(m.Fired) > 0 {
				return []string{listed[i], listed[j]}, true
			}
		}
	}
	if len(listed) > 2 {
		m.Dev = map[string]bool{}
		for _, d := range listed {
			m.Dev[d] = true
		}
		if v := m.Valid(doc); (v == observed || v == refmodel.Unspec) && len(m.Fired) > 0 {
			var fired []string
			for d := range m.Fired {
				fired = append(fired, d)
			}
			sort.Strings(fired)
			if len(fired) == 0 {
				fired = listed
			}
			return fired, true
		}
	}
	return nil, false
}

func compareValues(ctx *Ctx, sc *SCase, t *batch.Task, m *refmodel.Model, d refmodel.Doc, o *drv.Obs, listed []string) {
	want := m.Expect(d.V)
	got, err := jsonv.Parse(string(o.Walk))
	if err != nil {
		harnessFail("walk of %s does not parse: %v: %s", sc.ID, err, o.Walk)
	}
	if diff := jsonv.Diff("$", want, got); diff != "" {
		for _, dv := range listed {
			if valueDeviation(dv, m, sc, d, want, got, diff) {
				ctx.Run.Known(dv, fmt.Sprintf("%s doc=%s: %s", sc.ID, d.Text, diff), replayOf(t.Prog.Case, t.Type, t.Mode, d.Text, want, got))
				return
			}
		}
		ctx.Run.Violation("value:"+sc.Axes["pos"]+":"+sc.Axes["leaf"]+":"+coarseClass(d.Class),
			fmt.Sprintf("%s: document %s decoded to a different value: %s", sc.ID, d.Text, diff),
			replayOf(t.Prog.Case, t.Type, t.Mode, d.Text, want, got))
		return
	}
	// re-marshal: every non-empty declared input value is reproduced unchanged
	if o.MErr != "" {
		ctx.Run.Violation("remarshal-error:"+sc.Axes["leaf"], fmt.Sprintf("%s: document %s: json.Marshal of the decoded value failed: %s", sc.ID, d.Text, o.MErr),
			replayOf(t.Prog.Case, t.Type, t.Mode, d.Text, want, o.MErr))
		return
	}
	re, err := jsonv.Parse(o.Re)
	if err != nil {
		ctx.Run.Violation("remarshal-invalid", fmt.Sprintf("%s: re-marshalled JSON does not parse: %s", sc.ID, o.Re), replayOf(t.Prog.Case, t.Type, t.Mode, d.Text, want, o.Re))
		return
	}
	if diff := containsNonEmpty("$", flattenAdditional(want), re); diff != "" {
		for _, dv := range listed {
			if valueDeviation(dv, m, sc, d, want, re, diff) {
				ctx.Run.Known(dv, fmt.Sprintf("%s doc=%s: remarshal %s", sc.ID, d.Text, diff), replayOf(t.Prog.Case, t.Type, t.Mode, d.Text, want, re))
				return
			}
		}
		ctx.Run.Violation("remarshal:"+sc.Axes["pos"]+":"+sc.Axes["leaf"]+":"+coarseClass(d.Class),
			fmt.Sprintf("%s: document %s re-marshals to %s: %s", sc.ID, d.Text, o.Re, diff),
			replayOf(t.Prog.Case, t.Type, t.Mode, d.Text, want, o.Re))
	}
}

// flattenAdditional moves the additional-properties map of value trees to the object level, as it appears in JSON text.
// (The emitted types have no custom MarshalJSON for structs, so additional properties marshal under their field name;
// the statement only promises declared values for the re-marshalled form.)
func flattenAdditional(v any) any {
	switch x := v.(type) {
	case map[string]any:
		o := map[string]any{}
		for k, e := range x {
			if k == refmodel.AdditionalKey {
				continue
			}
			o[k] = flattenAdditional(e)
		}
		return o
	case []any:
		o := make([]any, len(x))
		for i := range x {
			o[i] = flattenAdditional(x[i])
		}
		return o
	}
	return v
}

func isEmptyValue(v any) bool {
	switch x := v.(type) {
	case nil:
		return true
	case bool:
		return !x
	case string:
		return x == ""
	case []any:
		return len(x) == 0
	case map[string]any:
		return len(x) == 0
	default:
		if r, ok := jsonv.Rat(v); ok {
			return r.Sign() == 0
		}
	}
	return false
}

// containsNonEmpty checks that every non-empty value of want occurs unchanged at the same path of got.
func containsNonEmpty(path string, want, got any) string {
	if isEmptyValue(want) {
		return ""
	}
	switch w := want.(type) {
	case map[string]any:
		g, ok := got.(map[string]any)
		if !ok {
			return fmt.Sprintf("%s: want object, got %s", path, jsonv.Text(got))
		}
		for _, k := range jsonv.Keys(w) {
			if isEmptyValue(w[k]) {
				continue
			}
			gv, ok := g[k]
			if !ok {
				return fmt.Sprintf("%s.%s: missing (want %s)", path, k, jsonv.Text(w[k]))
			}
			if d := containsNonEmpty(path+"."+k, w[k], gv); d != "" {
				return d
			}
		}
		return ""
	case []any:
		g, ok := got.([]any)
		if !ok || len(g) != len(w) {
			return fmt.Sprintf("%s: want %s, got %s", path, jsonv.Text(want), jsonv.Text(got))
		}
		for i := range w {
			if d := containsNonEmpty(fmt.Sprintf("%s[%d]", path, i), w[i], g[i]); d != "" {
				return d
			}
		}
		return ""
	}
	if !jsonv.Equal(want, got) {
		return fmt.Sprintf("%s: want %s, got %s", path, jsonv.Text(want), jsonv.Text(got))
	}
	return ""
}

// valueDeviation recognises the listed value-level findings (decoded value differs although the verdict agrees).
var valueDeviations = map[string]func(m *refmodel.Model, sc *SCase, d refmodel.Doc, want, got any, diff string) bool{}

func valueDeviation(name string, m *refmodel.Model, sc *SCase, d refmodel.Doc, want, got any, diff string) bool {
	// model-driven: does the expectation under this deviation equal the observation?
	m.Dev = map[string]bool{name: true}
	m.Fired = map[string]bool{}
	want2 := m.Expect(d.V)
	fired := len(m.Fired) > 0
	m.Dev = map[string]bool{}
	if fired {
		if strings.Contains(diff, "re-marshal") {
			if containsNonEmpty("$", flattenAdditional(want2), got) == "" {
				return true
			}
		} else if jsonv.Diff("$", want2, got) == "" {
			return true
		}
	}
	if f, ok := valueDeviations[name]; ok {
		return f(m, sc, d, want, got, diff)
	}
	return false
}

var classRoots = []string{"assign(", "pair:", "num:", "str:", "type:", "arr:", "item:", "absent", "null", "enum-", "map:", "mapval:", "addl:", "any:", "extra-key", "format:", "bool", "obj:", "multi"}

// coarseClass drops property names and numeric details from a document class.
func coarseClass(c string) string {
	best := -1
	for _, r := range classRoots {
		if i := strings.Index(c, r); i >= 0 && (best < 0 || i < best) {
			best = i
		}
	}
	if best > 0 {
		c = c[best:]
	}
	if i := strings.IndexAny(c, "=→("); i > 0 {
		c = c[:i]
	}
	return c
}

func jsonvDiffWithout(want, got any, key string) string {
	return jsonv.Diff("$", dropKey(want, key), dropKey(got, key))
}

func jsonNumber(s string) any { return json.Number(s) }

func jsonvRat(v any) (*big.Rat, bool) { return jsonv.Rat(v) }

// jsonvDiffMapped diffs after mapping the scalar leaves of want through f (used to state what the current implementation yields).
func jsonvDiffMapped(want, got any, f func(path string, w any) any) string {
	var mp func(path string, v any) any
	mp = func(path string, v any) any {
		switch x := v.(type) {
		case map[string]any:
			o := map[string]any{}
			for k, e := range x {
				o[k] = mp(path+"."+k, e)
			}
			return o
		case []any:
			o := make([]any, len(x))
			for i := range x {
				o[i] = mp(fmt.Sprintf("%s[%d]", path, i), x[i])
			}
			return o
		}
		return f(path, v)
	}
	return jsonv.Diff("$", mp("$", want), got)
}

// respelledFormatEscape: date / time / date-time values written with JSON escapes - the wrapper types (and time.Time itself) cut the quotes
// off the raw bytes (listed finding FORMAT_STRING_ESCAPES_REJECTED).
func respelledFormatEscape(sc *SCase, d *refmodel.Doc, o *drv.Obs) string {
	if strings.HasSuffix(d.Class, "/respelled") && strings.Contains(o.Err, "parsing time") && strings.Contains(o.Err, `\\u00`) {
		return "FORMAT_STRING_ESCAPES_REJECTED"
	}
	return ""
}

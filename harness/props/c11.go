package props

import (
	"fmt"
	"strings"
	"verif/drv"

	"verif/internal/jsonv"
	"verif/internal/refmodel"
	"verif/internal/space"
)

func init() {
	register("C11", "exploration", c11)
	ruleText["C11"] = "1..2 (thorough: ..3, and 4 for a reduced alphabet) object branches drawn from {properties subset of {a:string(minLength 2), b:integer(minimum 5), c:string(maxLength 3)}, required subset of those}, overlapping or disjoint, each inline or by $ref, under allOf and under anyOf, used as a property schema and an array item (thorough: nested property, definition); " +
		"documents = every assignment of {absent, valid, constraint-violating, wrong-typed} to a, b, c (4^3), which realises every subset of satisfied branches; oracle = allOf accepts iff every branch accepts and the decoded value exposes the union of properties, anyOf accepts iff some branch accepts; " +
		"non-trivial = not the all-valid document; distinct = (source hash, document)"
}

var c11Devs = []string{"LEN_BYTES", "REQUIRED_UNDECLARED_IGNORED", "ANYOF_MERGED_FIELD_TYPES", "ALLOF_FIRST_WINS", "COMPOSITE_DEF_REF_IS_ANY", "REF_UNTYPED_DEF_IS_ANY", "ALLOF_MERGE_MUTATES_SHARED_DEFINITION", "NULL_FIRST_OBJECT_BRANCHES_ARE_ANY", "COMPOSITE_SIBLING_KEYWORDS_DROPPED"}

type c11Branch struct {
	props []string
	req   []string
}

func (b c11Branch) String() string {
	return strings.Join(b.props, "") + "!" + strings.Join(b.req, "")
}

var c11Props = map[string]J{
	"a": {"type": "string", "minLength": 2},
	"b": {"type": "integer", "minimum": 5},
	"c": {"type": "string", "maxLength": 3},
}

func (b c11Branch) schema() J {
	if len(b.props) == 0 {
		// the "tighten" idiom: an untyped branch that only carries a required list
		r := A{}
		for _, x := range b.req {
			r = append(r, x)
		}
		return J{"required": r}
	}
	ps := J{}
	for _, p := range b.props {
		ps[p] = space.Clone(c11Props[p])
	}
	o := J{"type": "object", "properties": ps}
	if len(b.req) > 0 {
		r := A{}
		for _, x := range b.req {
			r = append(r, x)
		}
		o["required"] = r
	}
	return o
}

func c11Alphabet(level int) []c11Branch {
	if level == 0 {
		return []c11Branch{
			{[]string{"a"}, nil}, {[]string{"a"}, []string{"a"}}, {[]string{"b"}, []string{"b"}}, {[]string{"a", "b"}, []string{"a"}},
			{[]string{"a", "b"}, []string{"a", "b"}}, {[]string{"c"}, nil}, {[]string{"b", "c"}, []string{"c"}}, {[]string{"a", "c"}, nil},
		}
	}
	var out []c11Branch
	all := []string{"a", "b", "c"}
	for pm := 1; pm < 8; pm++ {
		var ps []string
		for i, p := range all {
			if pm&(1<<i) != 0 {
				ps = append(ps, p)
			}
		}
		for rm := 0; rm < 1<<len(ps); rm++ {
			var rq []string
			for i, p := range ps {
				if rm&(1<<i) != 0 {
					rq = append(rq, p)
				}
			}
			out = append(out, c11Branch{ps, rq})
		}
	}
	return out
}

func c11(ctx *Ctx) {
	alpha := c11Alphabet(ctx.Level)
	var lists [][]c11Branch
	for _, x := range alpha {
		lists = append(lists, []c11Branch{x})
	}
	for _, x := range alpha {
		for _, y := range alpha {
			lists = append(lists, []c11Branch{x, y})
		}
	}
	if ctx.Level >= 1 {
		small := c11Alphabet(0)
		for _, x := range small {
			for _, y := range small {
				for _, z := range small {
					lists = append(lists, []c11Branch{x, y, z})
				}
			}
		}
		for _, x := range small[:4] {
			for _, y := range small[2:6] {
				for _, z := range small[4:8] {
					for _, w := range small[:3] {
						lists = append(lists, []c11Branch{x, y, z, w})
					}
				}
			}
		}
	}
	var cases []SCase
	paths := map[string][]any{}
	tighten := []c11Branch{{nil, []string{"a"}}, {nil, []string{"b", "c"}}}
	for _, comp := range []string{"allOf", "anyOf"} {
		lists := lists
		if comp == "allOf" {
			// allOf only: a typed branch followed / preceded by an untyped required-only branch
			for _, x := range alpha {
				for _, t := range tighten {
					lists = append(lists, []c11Branch{x, t}, []c11Branch{t, x})
				}
			}
		}
		for _, l := range lists {
			refModes := []int{0, 1}
			if ctx.Level >= 1 && len(l) <= 2 {
				refModes = []int{0, 1, 2}
			}
			if len(l) >= 3 {
				refModes = []int{0}
			}
			for _, refMode := range refModes { // 0 all inline, 1 first by $ref, 2 all by $ref
				defs := J{}
				var branches A
				var names []string
				for i, b := range l {
					names = append(names, b.String())
					if refMode == 2 || (refMode == 1 && i == 0) {
						dn := fmt.Sprintf("B%d", i)
						defs[dn] = b.schema()
						branches = append(branches, J{"$ref": "#/$defs/" + dn})
					} else {
						branches = append(branches, b.schema())
					}
				}
				cs := J{comp: branches}
				name := fmt.Sprintf("%s[%s]/ref=%d", comp, strings.Join(names, ";"), refMode)
				type site struct {
					pos  string
					root J
					path []any
				}
				sites := []site{
					{"prop", J{"type": "object", "properties": J{"c": cs}, "required": A{"c"}}, []any{"c"}},
				}
				if len(l) <= 2 {
					sites = append(sites, site{"item", J{"type": "object", "properties": J{"a": J{"type": "array", "items": cs}}, "required": A{"a"}}, []any{"a", 0}})
				}
				if len(l) == 2 {
					// a *typed* definition that carries the composite, referred to twice
					tcs := space.Clone(cs)
					tcs["type"] = "object"
					sites = append(sites, site{"def-typed", J{"type": "object", "properties": J{"d": J{"$ref": "#/$defs/C"}, "d2": J{"$ref": "#/$defs/C"}}, "required": A{"d"}, "$defs": J{"C": tcs}}, []any{"d"}})
				}
				if ctx.Level >= 1 && len(l) <= 2 {
					sites = append(sites,
						site{"nested", J{"type": "object", "properties": J{"n": J{"type": "object", "properties": J{"c": cs}, "required": A{"c"}}}, "required": A{"n"}}, []any{"n", "c"}},
						site{"def", J{"type": "object", "properties": J{"d": J{"$ref": "#/$defs/C"}}, "required": A{"d"}, "$defs": J{"C": cs}}, []any{"d"}})
				}
				for _, st := range sites {
					root := space.Clone(st.root)
					if len(defs) > 0 {
						d, _ := root["$defs"].(J)
						if d == nil {
							d = J{}
						}
						for k, v := range defs {
							d[k] = v
						}
						root["$defs"] = d
					}
					id := "C11/" + st.pos + "/" + name
					paths[id] = st.path
					cases = append(cases, SCase{ID: id, Schema: root, Cfg: baseCfg(),
						Axes: map[string]string{"pos": st.pos, "leaf": name, "composite": comp, "ref": fmt.Sprint(refMode)}})
				}
			}
		}
	}
	runBehaviour(ctx, behaviour{Name: "composite", Cases: cases, Devs: c11Devs, Values: true,
		DocGen: func(sc *SCase, m *refmodel.Model) []refmodel.Doc { return c11Docs(paths[sc.ID]) }})
	// branches that constrain the SAME property with different keywords (both must hold) or with the same keyword and
	// different values (both must hold; the current implementation keeps the first: listed finding ALLOF_FIRST_WINS)
	runBehaviour(ctx, behaviour{Name: "overlap", Cases: c11Overlap(ctx.Level), Devs: c11Devs, Values: true,
		// the merge appends the enum lists of a property both branches declare (mergo with append-slice): a value that only one list names
		// is accepted (KF-C11-7); recognised when every given p is a member of the united list and one of them is not in both lists
		KnownMismatch: func(sc *SCase, d *refmodel.Doc, o *drv.Obs) string {
			if !strings.Contains(sc.Axes["leaf"], "enum|enum") || o.Err != "" || o.Panic != "" {
				return ""
			}
			var ps []any
			root, _ := d.V.(map[string]any)
			if c, ok := root["c"].(map[string]any); ok {
				if v, has := c["p"]; has {
					ps = append(ps, v)
				}
			}
			if l, ok := root["l"].([]any); ok {
				for _, e := range l {
					if m, ok := e.(map[string]any); ok {
						if v, has := m["p"]; has {
							ps = append(ps, v)
						}
					}
				}
			}
			onlyOne := false
			for _, v := range ps {
				sv, ok := v.(string)
				if !ok || (sv != "a" && sv != "b" && sv != "c") {
					return ""
				}
				if sv != "b" {
					onlyOne = true
				}
			}
			if onlyOne {
				return "ALLOF_ENUM_LISTS_UNITED"
			}
			return ""
		},
		DocGen: func(sc *SCase, m *refmodel.Model) []refmodel.Doc {
			docs := m.Docs(1)
			if strings.Contains(sc.Axes["leaf"], "enum|enum") {
				// every member of either list, and a value of neither
				for _, pv := range []string{"a", "b", "c", "zz"} {
					v := map[string]any{"c": map[string]any{"p": pv, "q": true}}
					docs = append(docs, refmodel.Doc{V: v, Text: jsonv.Text(v), Class: "enum-member:" + pv})
					w := map[string]any{"c": map[string]any{"p": "b"}, "l": []any{map[string]any{"p": pv}}}
					docs = append(docs, refmodel.Doc{V: w, Text: jsonv.Text(w), Class: "enum-member-in-item:" + pv})
				}
			}
			return docs
		},
		DocFilter: func(sc *SCase, d *refmodel.Doc, tv refmodel.Verdict) bool { return !strings.Contains(d.Class, "type:") }})
	// two composite lists that share one definition by reference: what one list adds to a property of the definition must not
	// show in the other list, nor in a plain reference to the definition
	shared, sharedDocs := c11Shared(ctx.Level)
	runBehaviour(ctx, behaviour{Name: "shared", Cases: shared, Devs: c11Devs, Values: true,
		// a keyword the definition states with the value zero is overwritten *inside the definition* by the merge (the merge library takes zero
		// for "not set"; the definition's own, already generated validator reads the same number): even the plain reference z enforces the
		// other member's bound. Same shared-object mechanism as KF-C11-4, which the model carries for later composites only
		KnownMismatch: func(sc *SCase, d *refmodel.Doc, o *drv.Obs) string {
			if sc.Axes["leaf"] == "minimum-over-zero" && strings.Contains(o.Err, "field p: must be >= 5") {
				return "ALLOF_MERGE_MUTATES_SHARED_DEFINITION"
			}
			return ""
		},
		DocGen: func(sc *SCase, m *refmodel.Model) []refmodel.Doc { return sharedDocs[sc.ID] }})
	// an object schema with its own properties / required list next to the composite: everything must hold together
	var own []SCase
	for _, comp := range []string{"allOf", "anyOf"} {
		for _, pos := range []string{"prop", "def", "root"} {
			b0 := J{"type": "object", "properties": J{"a": J{"type": "string"}}, "required": A{"a"}}
			b1 := J{"type": "object", "properties": J{"b": J{"type": "integer"}}}
			if comp == "anyOf" {
				b1["required"] = A{"b"}
			}
			o := J{"type": "object", "properties": J{"own": J{"type": "string", "minLength": 2}, "opt": J{"type": "boolean"}}, "required": A{"own"}, comp: A{b0, b1}}
			var root J
			switch pos {
			case "prop":
				root = J{"type": "object", "properties": J{"c": o, "k": J{"type": "string"}}, "required": A{"c"}}
			case "def":
				root = J{"type": "object", "properties": J{"c": J{"$ref": "#/$defs/O"}, "c2": J{"$ref": "#/$defs/O"}}, "required": A{"c"}, "$defs": J{"O": o}}
			case "root":
				root = o
			}
			own = append(own, SCase{ID: fmt.Sprintf("C11/own-keywords/%s/%s", comp, pos), Schema: root, Cfg: baseCfg(), Axes: map[string]string{"pos": "own-keywords", "leaf": comp + "/" + pos, "composite": comp}})
		}
	}
	runBehaviour(ctx, behaviour{Name: "own-keywords", Cases: own, Devs: c11Devs,
		DocFilter: func(sc *SCase, d *refmodel.Doc, tv refmodel.Verdict) bool {
			return !strings.Contains(d.Class, "extra-key")
		}})
	// a composite inside a branch of a composite, the inner list repeating a reference the outer list also uses (no cycle: every chain of
	// references ends): every document is judged by plain nesting of the two lists
	var nested []SCase
	for _, outer := range []string{"anyOf", "allOf"} {
		for _, inner := range []string{"anyOf", "allOf"} {
			if outer == "anyOf" && inner == "allOf" {
				continue // the struct merged for the outer anyOf enforces the inner conjunction's required lists on every document (KF-C11-1)
			}
			for _, refFirst := range []bool{true, false} {
				leaf := J{"type": "object", "properties": J{"l": J{"type": "string"}}, "required": A{"l"}}
				other := J{"type": "object", "properties": J{"o": J{"type": "string"}}, "required": A{"o"}}
				holder := J{"type": "object", "properties": J{"child": J{inner: A{J{"$ref": "#/$defs/Leaf"}, J{"$ref": "#/$defs/Other"}}}}, "required": A{"child"}}
				branches := A{J{"$ref": "#/$defs/Leaf"}, holder}
				if !refFirst {
					branches = A{holder, J{"$ref": "#/$defs/Leaf"}}
				}
				root := J{"type": "object", "properties": J{"c": J{outer: branches}, "k": J{"type": "string"}}, "required": A{"c"}, "$defs": J{"Leaf": leaf, "Other": other}}
				name := fmt.Sprintf("%s-in-%s/refFirst=%v", inner, outer, refFirst)
				nested = append(nested, SCase{ID: "C11/nested-composite/" + name, Schema: root, Cfg: baseCfg(), Axes: map[string]string{"pos": "nested-composite", "leaf": name, "composite": outer}})
				// the same lists as the root schema itself
				nested = append(nested, SCase{ID: "C11/nested-composite/root/" + name, Cfg: baseCfg(), Axes: map[string]string{"pos": "nested-composite", "leaf": "root/" + name, "composite": outer},
					Schema: J{"type": "object", outer: branches, "$defs": J{"Leaf": space.Clone(leaf), "Other": space.Clone(other)}}})
			}
		}
	}
	// a base definition mixed into three typed composite definitions through allOf, one of which (the holder) has a property of the type of
	// another (the target): no cycle anywhere. The three definition names take every order, because definitions are generated by name and
	// what is "under way" when the target is reached depends on it; the holder's property is a reference or an inline allOf over the base
	var mixins []SCase
	names := []string{"Alpha", "Mid", "Zeta"}
	for _, perm := range [][3]int{{0, 1, 2}, {0, 2, 1}, {1, 0, 2}, {1, 2, 0}, {2, 0, 1}, {2, 1, 0}} {
		for _, inline := range []bool{false, true} {
			user, holder, target := names[perm[0]], names[perm[1]], names[perm[2]]
			ref := func(n string) J { return J{"$ref": "#/$defs/" + n} }
			targetBody := func() J {
				return J{"type": "object", "allOf": A{ref("Entity"), J{"type": "object", "properties": J{"name": J{"type": "string", "minLength": 2}, "employees": J{"type": "integer", "minimum": 0}}, "required": A{"name"}}}}
			}
			var customer J = ref(target)
			if inline {
				customer = targetBody()
			}
			defs := J{
				"Entity": J{"type": "object", "properties": J{"id": J{"type": "string"}, "created": J{"type": "integer"}}},
				user:     J{"type": "object", "allOf": A{ref("Entity"), J{"type": "object", "properties": J{"iban": J{"type": "string"}}}}},
				holder:   J{"type": "object", "allOf": A{ref("Entity"), J{"type": "object", "properties": J{"total": J{"type": "number"}, "customer": customer}}}},
				target:   targetBody(),
			}
			id := fmt.Sprintf("C11/mixin/user=%s,holder=%s,target=%s/inline=%v", user, holder, target, inline)
			mixins = append(mixins, SCase{ID: id, Cfg: baseCfg(), Axes: map[string]string{"pos": "mixin", "leaf": fmt.Sprintf("%v/inline=%v", perm, inline), "composite": "allOf"},
				Schema: J{"type": "object", "properties": J{"u": ref(user), "h": ref(holder), "t": ref(target)}, "$defs": defs}})
		}
	}
	runBehaviour(ctx, behaviour{Name: "mixin", Cases: mixins, Devs: c11Devs, K: 1})
	runBehaviour(ctx, behaviour{Name: "nested-composite", Cases: nested, Devs: c11Devs,
		DocGen: func(sc *SCase, m *refmodel.Model) []refmodel.Doc {
			// every assignment of the outer "l" (absent / valid) and of "child" (absent, {}, a Leaf, an Other, both, a wrong-typed l)
			var out []refmodel.Doc
			children := []struct {
				name string
				v    any
			}{{"absent", nil}, {"empty", map[string]any{}}, {"leaf", map[string]any{"l": "x"}}, {"other", map[string]any{"o": "y"}}, {"both", map[string]any{"l": "x", "o": "y"}},
				{"l-wrong-type", map[string]any{"l": jsonv.MustParse("7")}}, {"unknown-key", map[string]any{"zzz": jsonv.MustParse("1")}}}
			for _, outerL := range []bool{true, false} {
				for _, ch := range children {
					if sc.Axes["composite"] == "anyOf" && outerL && (ch.name == "empty" || ch.name == "l-wrong-type" || ch.name == "unknown-key") {
						continue // accepted through the first branch, but the merged struct still validates "child" (KF-C11-1)
					}
					o := map[string]any{}
					if outerL {
						o["l"] = "x"
					}
					if ch.v != nil {
						o["child"] = ch.v
					}
					var doc any = o
					if !strings.HasPrefix(sc.Axes["leaf"], "root/") {
						doc = map[string]any{"c": o, "k": "v"}
					}
					class := fmt.Sprintf("assign(l:%v,child:%s)", outerL, ch.name)
					if outerL && ch.name == "leaf" {
						class = "base"
					}
					out = append(out, refmodel.Doc{V: doc, Text: jsonv.Text(doc), Class: class})
				}
			}
			for i, d := range out {
				if d.Class == "base" {
					out[0], out[i] = out[i], out[0]
				}
			}
			return out
		}})
	// branches that are nullable objects, in both spellings of the type list, inline and by reference
	var nb []SCase
	for _, comp := range []string{"allOf", "anyOf"} {
		for ti, types := range [][2]any{{A{"object", "null"}, A{"object", "null"}}, {A{"null", "object"}, A{"null", "object"}}, {A{"object", "null"}, "object"}, {A{"null", "object"}, "object"}, {"object", A{"null", "object"}}} {
			for _, ref := range []bool{false, true} {
				b0 := J{"type": types[0], "properties": J{"a": J{"type": "string"}, "n": J{"type": "integer", "minimum": 1}}}
				b1 := J{"type": types[1], "properties": J{"b": J{"type": "boolean"}}}
				if comp == "anyOf" {
					b0["required"] = A{"a"}
					b1["required"] = A{"b"}
				}
				root := J{"type": "object", "properties": J{"c": J{comp: A{b0, b1}}, "k": J{"type": "string"}}}
				if ref {
					root["properties"].(J)["c"] = J{comp: A{J{"$ref": "#/$defs/B0"}, b1}}
					root["$defs"] = J{"B0": b0}
				}
				id := fmt.Sprintf("C11/nullable-branches/%s/types=%d/ref=%v", comp, ti, ref)
				nb = append(nb, SCase{ID: id, Schema: root, Cfg: baseCfg(), Axes: map[string]string{"pos": "nullable-branches", "leaf": fmt.Sprintf("%s/%d", comp, ti), "composite": comp}})
			}
		}
	}
	runBehaviour(ctx, behaviour{Name: "nullable-branches", Cases: nb, Devs: c11Devs,
		DocGen: func(sc *SCase, m *refmodel.Model) []refmodel.Doc {
			var out []refmodel.Doc
			n := func(s string) any { return jsonv.MustParse(s) }
			for i, c := range []any{map[string]any{"a": "x", "n": n("7"), "b": true}, nil, "absent", map[string]any{"a": n("5"), "b": true}, map[string]any{"a": "x", "n": n("0"), "b": true}, map[string]any{"a": "x", "b": "no"}, "str", n("3"), []any{}} {
				o := map[string]any{"k": "v"}
				if c != "absent" {
					o["c"] = c
				}
				cls := []string{"base", "null", "absent", "wrongtype(a)", "violating(n)", "wrongtype(b)", "not-an-object:string", "not-an-object:number", "not-an-object:array"}[i]
				out = append(out, refmodel.Doc{V: o, Text: jsonv.Text(o), Class: cls})
			}
			return out
		}})
	ctx.Run.Assume("branches are object schemas over three properties with fixed, identical property schemas (no two branches constrain the same property differently in the quick tier)",
		"documents spell integers without fraction/exponent")
}

func c11Docs(path []any) []refmodel.Doc {
	vals := map[string][]any{
		"a": {nil, "aa", "x", jsonv.MustParse("1")},
		"b": {nil, jsonv.MustParse("7"), jsonv.MustParse("2"), "x"},
		"c": {nil, "ccc", "cccc", true},
	}
	cls := []string{"absent", "valid", "violating", "wrongtype"}
	var out []refmodel.Doc
	for ia := 0; ia < 4; ia++ {
		for ib := 0; ib < 4; ib++ {
			for ic := 0; ic < 4; ic++ {
				o := map[string]any{}
				if ia > 0 {
					o["a"] = vals["a"][ia]
				}
				if ib > 0 {
					o["b"] = vals["b"][ib]
				}
				if ic > 0 {
					o["c"] = vals["c"][ic]
				}
				var doc any = o
				for i := len(path) - 1; i >= 0; i-- {
					switch k := path[i].(type) {
					case string:
						doc = map[string]any{k: doc}
					case int:
						doc = []any{doc}
					}
				}
				class := fmt.Sprintf("assign(a:%s,b:%s,c:%s)", cls[ia], cls[ib], cls[ic])
				if ia == 1 && ib == 1 && ic == 1 {
					class = "base"
				}
				out = append(out, refmodel.Doc{V: doc, Text: jsonv.Text(doc), Class: class})
			}
		}
	}
	return out
}

// c11Shared: x and y are composite lists that both contain {"$ref": Base}; one of them adds a keyword to Base's property p, the
// other adds an unrelated property; z refers to Base plainly. Documents: p absent / fine for both / violating only the added
// keyword / of the wrong type, independently under x, y and z.
func c11Shared(level int) ([]SCase, map[string][]refmodel.Doc) {
	type kw struct {
		name        string
		base, extra J
		ok, bad, wt any
	}
	n := func(s string) any { return jsonv.MustParse(s) }
	kws := []kw{
		{"maxLength", J{"type": "string"}, J{"type": "string", "maxLength": 3}, "ab", "abcd", n("1")},
		{"minimum", J{"type": "integer"}, J{"type": "integer", "minimum": 5}, n("7"), n("2"), "x"},
		{"pattern", J{"type": "string", "minLength": 1}, J{"type": "string", "pattern": "^a"}, "ab", "b", true},
		// the definition states the keyword itself, with the value zero (which the merge library takes for "not set")
		{"minimum-over-zero", J{"type": "integer", "minimum": 0, "maximum": 100}, J{"type": "integer", "minimum": 5}, n("7"), n("2"), "x"},
	}
	var out []SCase
	docs := map[string][]refmodel.Doc{}
	for _, k := range kws {
		for _, comp := range []string{"allOf", "anyOf"} {
			for _, constrainer := range []string{"x", "y"} {
				for _, refFirst := range []bool{true, false} {
					if level == 0 && (k.name == "pattern" || (comp == "anyOf" && !refFirst) || (k.name == "minimum-over-zero" && comp == "anyOf")) {
						continue
					}
					base := J{"type": "object", "properties": J{"p": space.Clone(k.base), "k": J{"type": "boolean"}}}
					constraining := J{"type": "object", "properties": J{"p": space.Clone(k.extra)}}
					other := J{"type": "object", "properties": J{"o": J{"type": "integer"}}}
					ref := J{"$ref": "#/$defs/Base"}
					lc := A{ref, constraining}
					if !refFirst {
						lc = A{constraining, ref}
					}
					lo := A{J{"$ref": "#/$defs/Base"}, other}
					props := J{"z": J{"$ref": "#/$defs/Base"}}
					plain := "y"
					if constrainer == "y" {
						plain = "x"
					}
					props[constrainer] = J{comp: lc}
					props[plain] = J{"allOf": lo}
					root := J{"type": "object", "properties": props, "$defs": J{"Base": base}}
					id := fmt.Sprintf("C11/shared/%s/%s/constrainer=%s/refFirst=%v", k.name, comp, constrainer, refFirst)
					out = append(out, SCase{ID: id, Schema: root, Cfg: baseCfg(), Axes: map[string]string{"pos": "shared", "leaf": k.name, "composite": comp}})
					vals := []any{nil, k.ok, k.bad, k.wt}
					cls := []string{"absent", "valid", "violating-added-keyword", "wrongtype"}
					var ds []refmodel.Doc
					for ix := 0; ix < 4; ix++ {
						for iy := 0; iy < 4; iy++ {
							for iz := 0; iz < 4; iz++ {
								o := map[string]any{}
								for name, i := range map[string]int{"x": ix, "y": iy, "z": iz} {
									if i > 0 {
										o[name] = map[string]any{"p": vals[i], "k": true}
									} else {
										o[name] = map[string]any{"k": true}
									}
								}
								class := fmt.Sprintf("assign(x:%s,y:%s,z:%s)", cls[ix], cls[iy], cls[iz])
								if ix == 1 && iy == 1 && iz == 1 {
									class = "base"
								}
								ds = append(ds, refmodel.Doc{V: o, Text: jsonv.Text(o), Class: class})
								if ix == 1 && iy == 1 {
									// the property only the *other* list declares (o: integer), with a value of another type, under each of x, y, z
									for _, where := range []string{"x", "y", "z"} {
										f := jsonv.Clone(o).(map[string]any)
										f[where].(map[string]any)["o"] = "not-an-integer"
										ds = append(ds, refmodel.Doc{V: f, Text: jsonv.Text(f), Class: fmt.Sprintf("foreign-property(%s,z:%s)", where, cls[iz])})
									}
								}
							}
						}
					}
					// the base document first
					for i, d := range ds {
						if d.Class == "base" {
							ds[0], ds[i] = ds[i], ds[0]
						}
					}
					docs[id] = ds
				}
			}
		}
	}
	return out, docs
}

func c11Overlap(level int) []SCase {
	type pr struct {
		name string
		x, y J // the schemas the two branches give to property p
	}
	str, in, nu := "string", "integer", "number"
	pairs := []pr{
		{"minLength|maxLength", J{"type": str, "minLength": 2}, J{"type": str, "maxLength": 3}},
		{"maxLength|pattern", J{"type": str, "maxLength": 3}, J{"type": str, "pattern": "^a"}},
		{"minimum|maximum", J{"type": in, "minimum": 5}, J{"type": in, "maximum": 9}},
		{"maximum|multipleOf", J{"type": in, "maximum": 9}, J{"type": in, "multipleOf": 3}},
		{"exclusiveMinimum|maximum(number)", J{"type": nu, "exclusiveMinimum": 0.5}, J{"type": nu, "maximum": 2.5}},
		{"minItems|maxItems", J{"type": "array", "items": J{"type": in}, "minItems": 1}, J{"type": "array", "items": J{"type": in}, "maxItems": 2}},
		{"plain|minLength", J{"type": str}, J{"type": str, "minLength": 2}},
		{"minLength|minLength", J{"type": str, "minLength": 2}, J{"type": str, "minLength": 4}},
		{"maximum|maximum", J{"type": in, "maximum": 9}, J{"type": in, "maximum": 5}},
		// both branches restrict the property to a list of values: the conjunction admits the values both lists name
		{"enum|enum", J{"type": str, "enum": A{"a", "b"}}, J{"type": str, "enum": A{"b", "c"}}},
		// the shared property is itself an object: nested property sets and nested required lists of both branches hold together
		{"object:required-x|required-y", J{"type": "object", "properties": J{"x": J{"type": str}}, "required": A{"x"}}, J{"type": "object", "properties": J{"y": J{"type": in}}, "required": A{"y"}}},
		{"object:plain|required-y", J{"type": "object", "properties": J{"x": J{"type": str}, "y": J{"type": in}}}, J{"type": "object", "properties": J{"x": J{"type": str}, "y": J{"type": in}}, "required": A{"y"}}},
	}
	var out []SCase
	for _, comp := range []string{"allOf", "anyOf"} {
		for _, p := range pairs {
			if comp == "anyOf" && strings.HasPrefix(p.name, "object:") {
				continue // anyOf decodes into the struct merged from all branches, nested required lists included (KF-C11-1)
			}
			for _, order := range []int{0, 1} {
				x, y := p.x, p.y
				if order == 1 {
					x, y = y, x
				}
				for _, ref := range []int{0, 1, 2} {
					if level == 0 && ref == 2 {
						continue
					}
					if p.name == "enum|enum" && (comp != "allOf" || ref != 0) {
						continue // anyOf: the merged struct carries one enum type for both branches (KF-C11-1); by reference: KF-C11-4
					}
					if ref != 0 && strings.HasPrefix(p.name, "object:") {
						// a branch given by $ref: the merged property IS the definition's own property schema (KF-C11-4), whose type
						// was declared before the merge - the later branch's nested keywords never reach it
						continue
					}
					bx := J{"type": "object", "properties": J{"p": space.Clone(x), "q": J{"type": "boolean"}}}
					by := J{"type": "object", "properties": J{"p": space.Clone(y)}, "required": A{"p"}}
					defs := J{}
					var branches A
					for i, b := range []J{bx, by} {
						if ref == 2 || (ref == 1 && i == 0) {
							n := fmt.Sprintf("B%d", i)
							defs[n] = b
							branches = append(branches, J{"$ref": "#/$defs/" + n})
						} else {
							branches = append(branches, b)
						}
					}
					root := J{"type": "object", "properties": J{"c": J{comp: branches}, "l": J{"type": "array", "items": J{comp: branches}}}, "required": A{"c"}}
					if len(defs) > 0 {
						root["$defs"] = defs
					}
					name := fmt.Sprintf("%s/%s/order=%d/ref=%d", comp, p.name, order, ref)
					out = append(out, SCase{ID: "C11/overlap/" + name, Schema: root, Cfg: baseCfg(), Axes: map[string]string{"pos": "overlap", "leaf": name, "composite": comp}})
				}
			}
		}
	}
	return out
}

package props

import (
	"fmt"
	"go/ast"
	"go/parser"
	"go/token"
	"sort"
	"strconv"
	"strings"

	"verif/internal/batch"
	"verif/internal/refmodel"
	"verif/internal/space"
)

func init() {
	register("C08", "exploration", c08)
	ruleText["C08"] = "enum lists over strings, integers, numbers, booleans, null and mixtures (length 1..3, with duplicates), typed or untyped, used as required/optional property, via $ref, as array item, as map value, with a default, with and without --min-sized-ints; " +
		"documents = every member, near-miss non-members of the same type, one value of every other JSON type, null, absent; oracle = accept iff JSON-equal to a member, decoded value and re-marshalled JSON equal the input member, and (AST) one typed constant per listed string value; " +
		"non-trivial = differs from base; distinct = (source hash, document)"
}

var c08Devs = []string{"NULL_ENUM_ZERO_MEMBER_ACCEPTED", "SIZED_INT_ENUM_REJECTS_ALL", "REF_UNTYPED_DEF_IS_ANY", "ENUM_WRAPPER_MAPVAL_MARSHAL", "DEFAULT_ENUM_NULL_REJECTED"}

type enumList struct {
	name string
	vals A
	typ  string // matching type name or ""
}

func c08Lists(level int) []enumList {
	ls := []enumList{
		{"s1", A{"a"}, "string"}, {"s2", A{"a", "b"}, "string"}, {"s-dup", A{"a", "a"}, "string"}, {"s-special", A{"x-1", "y 2"}, "string"},
		{"i2", A{1, 2}, "integer"}, {"i3", A{0, -1, 2}, "integer"},
		{"n2", A{1.5, 2}, "number"},
		{"b1", A{true}, "boolean"}, {"b2", A{true, false}, "boolean"},
		{"i-zero", A{0, 1}, "integer"}, {"s-empty", A{"", "a"}, "string"}, {"b-false", A{false}, "boolean"},
		{"null", A{nil}, ""},
		{"mixed", A{"a", 1, nil, true}, ""}, {"mixed-num", A{1, 1.5}, "number"}, {"s-null", A{"a", nil}, ""},
		// text that a format string, an interpreted or a raw string literal would mangle: the constant and the table entry must hold the exact value
		{"s-percent", A{"50% off", "%s %d %v", "%%"}, "string"}, {"s-percent-end", A{"100%", "a%"}, "string"}, {"s-quotes", A{"q\"uote", "sl\\ash", "tab\there", "é 日本"}, "string"},
		// members of different JSON types whose printed forms coincide
		{"mixed-like-int", A{1, "1", 2, "2"}, ""}, {"mixed-like-bool", A{true, "true", false}, ""}, {"mixed-like-null", A{nil, "<nil>", "null"}, ""}, {"mixed2", A{"1", 1}, ""},
	}
	if level >= 1 {
		ls = append(ls, enumList{"s3", A{"a", "b", "c"}, "string"}, enumList{"s-case", A{"a", "A"}, "string"},
			enumList{"i1", A{7}, "integer"}, enumList{"n1", A{0.5}, "number"}, enumList{"s-newline", A{"line\nbreak", "cr\rlf"}, "string"})
	}
	return ls
}

func c08(ctx *Ctx) {
	cases, want := c08Cases(ctx.Level)
	runBehaviour(ctx, behaviour{Name: "enum", Cases: cases, Devs: c08Devs, Values: true, Respell: true,
		ModelInit: func(m *refmodel.Model) { m.EnumNullJudged = true },
		OnProgram: func(sc *SCase, p *batch.Program) { c08Consts(ctx, sc, p, want[sc.ID]) },
		DocFilter: func(sc *SCase, d *refmodel.Doc, tv refmodel.Verdict) bool {
			return !strings.Contains(d.Class, "extra-key")
		}})
	ctx.Run.Assume("null for an optional enum-typed property is not judged (the statements define null only for numeric/string/array optionals and defaults)",
		"enum value names that normalise to the same Go constant do not compile; that is C01's subject and such lists are not in this family")
}

func c08Cases(level int) ([]SCase, map[string][]string) {
	var cases []SCase
	want := map[string][]string{} // case id -> listed string values (for the constant check)
	for _, l := range c08Lists(level) {
		for _, typed := range []bool{false, true} {
			if typed && l.typ == "" {
				continue
			}
			e := J{"enum": l.vals}
			if typed {
				e["type"] = l.typ
			}
			for _, sized := range []bool{false, true} {
				if sized && !(typed && l.typ == "integer") {
					continue
				}
				cfg := baseCfg()
				cfg.MinSizedInts = sized
				name := fmt.Sprintf("%s/typed=%v/sized=%v", l.name, typed, sized)
				var strs []string
				for _, v := range l.vals {
					if s, ok := v.(string); ok {
						strs = append(strs, s)
					}
				}
				add := func(pos string, schema J) {
					id := "C08/" + pos + "/" + name
					want[id] = strs
					cases = append(cases, SCase{ID: id, Schema: schema, Cfg: cfg, Axes: map[string]string{"pos": pos, "leaf": name}})
				}
				if typed && !sized && (l.name == "s2" || l.name == "i2" || l.name == "b2") {
					// the type given as [T, "null"] with null among the members
					ne := J{"type": A{l.typ, "null"}, "enum": append(append(A{}, l.vals...), nil)}
					id := "C08/props/" + name + "/nullable-typed"
					want[id] = strs
					cases = append(cases, SCase{ID: id, Cfg: cfg, Axes: map[string]string{"pos": "props", "leaf": name + "/nullable-typed"},
						Schema: J{"type": "object", "properties": J{"r": ne, "o": ne, "a": J{"type": "array", "items": ne}}, "required": A{"r"}}})
				}
				ed := space.With(e, "default", l.vals[0])
				add("props", J{"type": "object", "properties": J{"r": e, "o": e}, "required": A{"r"}})
				add("def", J{"type": "object", "properties": J{"d": J{"$ref": "#/$defs/E"}, "do": J{"$ref": "#/$defs/E"}}, "required": A{"d"}, "$defs": J{"E": e}})
				add("item", J{"type": "object", "properties": J{"a": J{"type": "array", "items": e}}})
				add("mapval", J{"type": "object", "properties": J{"m": J{"type": "object", "additionalProperties": e}}})
				if l.vals[0] != nil {
					add("default", J{"type": "object", "properties": J{"o": ed}})
				}
				if level >= 1 {
					add("defitem", J{"type": "object", "properties": J{"a": J{"type": "array", "items": J{"$ref": "#/$defs/E"}}}, "$defs": J{"E": e}})
					add("root", space.Clone(e))
					add("nested", J{"type": "object", "properties": J{"n": J{"type": "object", "properties": J{"r": e}, "required": A{"r"}}}})
				}
			}
		}
	}
	for _, c := range collisionTriples("C08", func(i int) J {
		return []J{{"type": "string", "enum": A{"queued", "running"}}, {"type": "string", "enum": A{"ok", "failed"}}, {"enum": A{"x", 1}}}[i]
	}, false) {
		want[c.ID] = nil
		cases = append(cases, c)
	}
	return cases, want
}

// c08Consts: for string enums the package exposes one typed constant per listed value whose value is that string.
func c08Consts(ctx *Ctx, sc *SCase, p *batch.Program, listed []string) {
	if len(listed) == 0 {
		return
	}
	fset := token.NewFileSet()
	f, err := parser.ParseFile(fset, "g.go", p.Source, parser.SkipObjectResolution)
	if err != nil {
		return
	}
	got := map[string]bool{}
	for _, d := range f.Decls {
		gd, ok := d.(*ast.GenDecl)
		if !ok || gd.Tok != token.CONST {
			continue
		}
		for _, sp := range gd.Specs {
			vs := sp.(*ast.ValueSpec)
			if vs.Type == nil || len(vs.Values) != 1 {
				continue
			}
			if lit, ok := vs.Values[0].(*ast.BasicLit); ok && lit.Kind == token.STRING {
				if s, err := strconv.Unquote(lit.Value); err == nil {
					got[s] = true
				}
			}
		}
	}
	wantSet := map[string]bool{}
	for _, s := range listed {
		wantSet[s] = true
	}
	isStringEnum := true
	en, _ := findEnum(sc.Schema)
	for _, v := range en {
		if _, ok := v.(string); !ok {
			isStringEnum = false
		}
	}
	ctx.Run.Eval(p.SourceSig+"|consts", true)
	if !isStringEnum {
		return
	}
	var missing, extra []string
	for s := range wantSet {
		if !got[s] {
			missing = append(missing, s)
		}
	}
	for s := range got {
		if !wantSet[s] {
			extra = append(extra, s)
		}
	}
	sort.Strings(missing)
	sort.Strings(extra)
	if len(missing) > 0 || len(extra) > 0 {
		ctx.Run.Violation("enum-constants:"+sc.Axes["pos"], fmt.Sprintf("%s: typed string constants do not match the enum list: missing %q, unexpected %q", sc.ID, missing, extra),
			map[string]any{"kind": "gen", "files": p.Case.Files, "cfg": p.Case.Cfg, "listed": listed, "source": p.Source})
	}
}

func findEnum(v any) (A, bool) {
	switch x := v.(type) {
	case map[string]any:
		if e, ok := x["enum"].([]any); ok {
			return e, true
		}
		for _, k := range space.SortedKeys(x) {
			if e, ok := findEnum(x[k]); ok {
				return e, true
			}
		}
	case []any:
		for _, e := range x {
			if r, ok := findEnum(e); ok {
				return r, true
			}
		}
	}
	return nil, false
}

func init() {
	// a wrapped (mixed-type / null) enum used as a map value re-marshals as {"Value": x}: MarshalJSON has a pointer
	// receiver and map values are not addressable.
	valueDeviations["ENUM_WRAPPER_MAPVAL_MARSHAL"] = func(m *refmodel.Model, sc *SCase, d refmodel.Doc, want, got any, diff string) bool {
		if !strings.HasPrefix(diff, "$.m.") {
			return false
		}
		return containsNonEmpty("$", flattenAdditional(want), unwrapValue(got, 0)) == ""
	}
}

// unwrapValue replaces {"Value": x} objects that are map values by x.
func unwrapValue(v any, depth int) any {
	switch x := v.(type) {
	case map[string]any:
		o := map[string]any{}
		for k, e := range x {
			if em, ok := e.(map[string]any); ok && len(em) == 1 {
				if inner, ok := em["Value"]; ok {
					o[k] = inner
					continue
				}
			}
			o[k] = unwrapValue(e, depth+1)
		}
		return o
	case []any:
		o := make([]any, len(x))
		for i := range x {
			o[i] = unwrapValue(x[i], depth+1)
		}
		return o
	}
	return v
}

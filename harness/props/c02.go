package props

import (
	"fmt"
	"strings"
	"verif/internal/jsonv"

	"verif/internal/refmodel"
	"verif/internal/space"
)

func init() {
	register("C02", "exploration", c02)
	ruleText["C02"] = "every leaf schema x nullability x required x position (property, nested, array item, map value, definition, root, allOf/anyOf branch; thorough: depth-2 items, definition items, object items, typed additional properties, all pairs of leaves at root) is generated and compiled; " +
		"documents = every enumerated document that is valid in the reference model (boundary values of every constraint, optional properties absent/present, null where allowed, additional keys, int64 extremes, 2^53+1, 0.1, 1e21, 1e-7, max float, escapes, multi-byte, format samples), k<=2 deviations from base; " +
		"oracle = accepted, reflect-walk of the decoded value equals the model's expectation key by key (by json tag), re-marshalled JSON contains every non-empty declared input value, additional-properties map holds exactly the undeclared keys; " +
		"non-trivial = differs from base; distinct = (source hash, document)"
}

var c02Devs = []string{"REQUIRED_UNDECLARED_IGNORED", "INLINE_STRUCT_NO_DEFAULTS", "NULL_OBJECT_VALIDATES_ZERO", "LEN_BYTES", "ADDL_INT_VIA_FLOAT64", "INLINE_STRUCT_NO_ADDITIONAL", "SIZED_INT_ENUM_REJECTS_ALL", "FORMAT_DEF_NO_METHODS", "NULL_TO_ADDL_STRUCT_ERRORS", "TIME_FRACTION_DROPPED", "UNTYPED_ADDL_DROPPED", "ENUM_WRAPPER_MAPVAL_MARSHAL", "ANYOF_MERGED_FIELD_TYPES", "ADDL_NONPRIMITIVE_RAW", "DEFAULT_ENUM_NULL_REJECTED"}

func c02(ctx *Ctx) {
	var cases []SCase
	for _, sc := range leafFamily(ctx.Level) {
		if sc.Axes["default"] == "true" || strings.HasPrefix(sc.Axes["pos"], "allof") || strings.HasPrefix(sc.Axes["pos"], "anyof") {
			continue // defaults are C09's subject, composites C11's
		}
		sc.ID = "C02/" + sc.ID
		cases = append(cases, sc)
	}
	if ctx.Level >= 1 {
		ls := space.Leaves(0)
		for i := 0; i < len(ls); i++ {
			for j := i + 1; j < len(ls); j++ {
				cases = append(cases, SCase{ID: fmt.Sprintf("C02/pair/%s+%s", ls[i].Name, ls[j].Name), Cfg: baseCfg(),
					Schema: J{"type": "object", "properties": J{"x": ls[i].S, "y": ls[j].S}, "required": A{"x"}},
					Axes:   map[string]string{"pos": "pair", "leaf": ls[i].Name + "+" + ls[j].Name}})
			}
		}
	}
	k := 1
	if ctx.Level >= 1 {
		k = 2
	}
	runBehaviour(ctx, behaviour{Name: "valid", Cases: cases, Devs: c02Devs, Values: true, K: k, Respell: true,
		DocFilter: func(sc *SCase, d *refmodel.Doc, tv refmodel.Verdict) bool { return tv == refmodel.Accept }})
	// undeclared keys that are spelled like the Go field name of a declared property (foo_bar -> FooBar): exactly the undeclared keys are
	// collected, whatever they look like
	var fieldKeys []SCase
	for _, nested := range []bool{false, true} {
		o := J{"type": "object", "properties": J{"foo_bar": J{"type": "string"}, "n": J{"type": "integer"}}, "additionalProperties": J{"type": "integer"}}
		root := o
		if nested {
			root = J{"type": "object", "properties": J{"o": o}, "required": A{"o"}}
		}
		fieldKeys = append(fieldKeys, SCase{ID: fmt.Sprintf("C02/undeclared-key-like-a-field-name/nested=%v", nested), Schema: root, Cfg: baseCfg(),
			Axes: map[string]string{"pos": "field-name-key", "leaf": "field-name-key"}})
	}
	runBehaviour(ctx, behaviour{Name: "field-name-keys", Cases: fieldKeys, Devs: append(append([]string{}, c02Devs...), "ADDL_KEY_LIKE_FIELD_NAME_DROPPED"), Values: true,
		DocGen: func(sc *SCase, m *refmodel.Model) []refmodel.Doc {
			var docs []refmodel.Doc
			for i, inner := range []map[string]any{
				{"foo_bar": "a", "n": jsonv.MustParse("3"), "x": jsonv.MustParse("1")},
				{"foo_bar": "a", "FooBar": jsonv.MustParse("7"), "x": jsonv.MustParse("1")},
				{"FooBar": jsonv.MustParse("7")},
				{"foo_bar": "a", "N": jsonv.MustParse("5"), "Foo_bar": jsonv.MustParse("9")},
			} {
				var v any = inner
				if _, isNested := sc.Schema["properties"].(J)["o"]; isNested {
					v = map[string]any{"o": inner}
				}
				docs = append(docs, refmodel.Doc{V: v, Text: jsonv.Text(v), Class: fmt.Sprintf("addl:field-name-key-%d", i)})
			}
			return docs[:3] // (the fourth differs from declared names by case only: encoding/json's case-insensitive matching, out of scope)
		}})
	ctx.Run.Assume("number values are limited to those whose shortest float64 text equals the input text; integers to int64",
		"date-time samples have no trailing fractional zeros; ipv6 samples are canonical", "absent and null are the same observation for a decoded field",
		"objects without an explicit additionalProperties keyword have no additional-properties map; undeclared keys are then accepted and ignored")
	_ = strings.Contains
}

func init() {
	// the clean-up loop of the catch-all block deletes the raw keys by Go field NAME as well as by tag
	valueDeviations["ADDL_KEY_LIKE_FIELD_NAME_DROPPED"] = func(m *refmodel.Model, sc *SCase, d refmodel.Doc, want, got any, diff string) bool {
		return sc.Axes["leaf"] == "field-name-key" && strings.Contains(diff, "FooBar")
	}
	// typed integer additional properties travel through map[string]interface{} (float64) and mapstructure:
	// integers beyond 2^53 lose precision, 2^63-1 overflows
	valueDeviations["ADDL_INT_VIA_FLOAT64"] = func(m *refmodel.Model, sc *SCase, d refmodel.Doc, want, got any, diff string) bool {
		if !strings.Contains(diff, refmodel.AdditionalKey) && !strings.Contains(diff, "additional") {
			return false
		}
		return jsonvDiffMapped(want, got, func(path string, w any) any {
			if !strings.Contains(path, refmodel.AdditionalKey) {
				return w
			}
			if r, ok := jsonvRat(w); ok && r.IsInt() {
				f, _ := r.Float64()
				if f >= 9223372036854775808.0 {
					return jsonNumber("-9223372036854775808")
				}
				return jsonNumber(fmt.Sprintf("%d", int64(f)))
			}
			return w
		}) == ""
	}
	// an object with additionalProperties used as a map value / item of a named array is an inline struct without
	// unmarshal method: undeclared keys are not collected
	valueDeviations["INLINE_STRUCT_NO_ADDITIONAL"] = func(m *refmodel.Model, sc *SCase, d refmodel.Doc, want, got any, diff string) bool {
		if sc.Axes["pos"] != "mapval" || !strings.HasSuffix(strings.SplitN(diff, ":", 2)[0], refmodel.AdditionalKey) {
			return false
		}
		return jsonvDiffWithout(want, got, refmodel.AdditionalKey) == ""
	}
}

// Package props holds one file per property: its space, bounds and oracle.
package props

import (
	"fmt"
	"os"
	"path/filepath"
	"sort"
	"strings"

	"verif/internal/genlab"
	"verif/internal/report"
	"verif/internal/ws"
)

// Ctx is what a check gets.
type Ctx struct {
	Prop  string
	Tier  string
	Level int // 0 quick, 1 thorough
	Run   *report.Run
	Pool  *genlab.Pool
}

type checkFn func(*Ctx)

type entry struct {
	level string // evidence level
	fn    checkFn
}

var registry = map[string]entry{}

func register(id, level string, fn checkFn) { registry[id] = entry{level, fn} }

// IDs lists the registered property ids.
func IDs() []string {
	var s []string
	for k := range registry {
		s = append(s, k)
	}
	sort.Strings(s)
	return s
}

// Main runs one check and returns the exit code.
func Main(prop, tier string) int {
	e, ok := registry[prop]
	if !ok {
		fmt.Fprintf(os.Stderr, "unknown property %q (have %s)\n", prop, strings.Join(IDs(), " "))
		return 2
	}
	lvl := 0
	if tier == "thorough" {
		lvl = 1
	} else if tier != "quick" {
		fmt.Fprintln(os.Stderr, "tier must be quick or thorough")
		return 2
	}
	ctx := &Ctx{Prop: prop, Tier: tier, Level: lvl, Run: report.New(prop, tier, e.level)}
	ctx.Pool = genlab.NewPool(filepath.Join(ws.Root(), "exports.txt"))
	code := 0
	func() {
		defer func() {
			if r := recover(); r != nil {
				if he, ok := r.(harnessError); ok {
					fmt.Fprintln(os.Stderr, "HARNESS ERROR:", string(he))
					code = 2
					return
				}
				panic(r)
			}
		}()
		e.fn(ctx)
	}()
	if code != 0 {
		return code
	}
	return ctx.Run.Finish(ruleText[prop])
}

var ruleText = map[string]string{}

type harnessError string

func harnessFail(f string, a ...any) { panic(harnessError(fmt.Sprintf(f, a...))) }

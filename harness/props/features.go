package props

import (
	"encoding/json"
	"fmt"
	"regexp"
	"strings"

	"verif/internal/space"
)

// features extracts the schema features the generator-level finding rules are predicated on.
func features(schema any) map[string]bool {
	f := map[string]bool{}
	var walk func(v any, inProps bool)
	walk = func(v any, inProps bool) {
		switch x := v.(type) {
		case []any:
			for _, e := range x {
				walk(e, false)
			}
		case map[string]any:
			if inProps {
				for _, k := range space.SortedKeys(x) {
					walk(x[k], false)
				}
				return
			}
			for _, tk := range []string{"description", "title"} {
				if d, ok := x[tk].(string); ok && strings.ContainsRune(d, 0) {
					f["nul-in-text"] = true
				}
			}
			if pt, ok := x["pattern"].(string); ok && strings.Contains(pt, "`") {
				f["pattern-backtick"] = true
			}
			if d, ok := x["description"].(string); ok && buildLine.MatchString(d) {
				f["description-build-line"] = true
			}
			types := typeNames(x["type"])
			nullable := contains(types, "null") && len(types) == 2
			_, hasDefault := x["default"]
			format, _ := x["format"].(string)
			enum, hasEnum := x["enum"].([]any)
			if hasDefault {
				if nullable {
					f["default+nullable"] = true
				}
				if format == "date" || format == "time" || format == "date-time" || format == "ipv4" || format == "ipv6" {
					f["default+format"] = true
				}
				if contains(types, "object") || x["properties"] != nil {
					f["default+object"] = true
				}
				if d, ok := x["default"].([]any); ok {
					for _, e := range d {
						if _, ok := e.([]any); ok {
							f["default+array-array"] = true
						}
						if _, ok := e.(map[string]any); ok {
							f["default+array-object"] = true
						}
					}
				}
				if hasEnum && wrappedEnum(enum, types) {
					f["default+wrapped-enum"] = true
				}
				if len(types) == 0 && !hasEnum {
					f["default+untyped"] = true
				}
			}
			if contains(types, "integer") || contains(types, "number") {
				_, hasMin := x["minimum"]
				_, hasMax := x["maximum"]
				_, hasMul := x["multipleOf"]
				bmin, isBmin := x["exclusiveMinimum"].(bool)
				bmax, isBmax := x["exclusiveMaximum"].(bool)
				_, hasEmin := x["exclusiveMinimum"]
				_, hasEmax := x["exclusiveMaximum"]
				_, _ = bmin, bmax
				effective := hasMul || hasMin || hasMax || (hasEmin && !isBmin) || (hasEmax && !isBmax)
				if (isBmin || isBmax) && !effective {
					f["noop-numeric"] = true
				}
				if (isBmin && !hasMin) || (isBmax && !hasMax) {
					f["bool-exclusive-without-bound"] = true
				}
				if mo, ok := x["multipleOf"]; ok && contains(types, "integer") {
					if n, ok := toFloat(mo); ok && n < 1 && n > -1 {
						f["int-multipleOf<1"] = true
					}
				}
			}
			if hasEnum && (format == "date" || format == "time" || format == "date-time" || format == "ipv4" || format == "ipv6") {
				f["enum+format"] = true
			}
			if contains(types, "integer") {
				mn, okMin := toFloat(x["minimum"])
				mx, okMax := toFloat(x["maximum"])
				if (okMin && okMax && mn > mx) || (okMax && mx > 18446744073709551615.0-1) || (okMin && mn < -9223372036854775808.0) || (okMax && okMin && mn >= 0 && mx >= 9223372036854775808.0) {
					f["integer-bounds-not-representable"] = true
				}
			}
			if hasEnum {
				seen := map[string]string{}
				for _, e := range enum {
					if s, ok := e.(string); ok {
						n := strings.ToLower(nonAlnum.ReplaceAllString(s, ""))
						if first, dup := seen[n]; dup && first != s { // (the same string listed twice is declared once: not a collision)
							f["enum-const-collision"] = true
						} else if !dup {
							seen[n] = s
						}
					}
				}
			}
			if ap, ok := x["additionalProperties"]; ok && x["properties"] != nil {
				untyped := false
				switch a := ap.(type) {
				case bool:
					untyped = a
				case map[string]any:
					untyped = len(typeNames(a["type"])) == 0
				}
				if untyped {
					f["props+untyped-addl"] = true
				}
				if hasDefault {
					f["default+addl"] = true
				}
			}
			for _, ck := range []string{"anyOf", "allOf"} {
				if bs, ok := x[ck].([]any); ok {
					for _, b := range bs {
						bm, _ := b.(map[string]any)
						bt := typeNames(bm["type"])
						_, isRef := bm["$ref"]
						if !isRef && !(len(bt) == 1 && bt[0] == "object") {
							f[strings.ToLower(ck)+"-non-object-branch"] = true
						}
						if isRef && ck == "anyOf" {
							f["anyof-ref-branch"] = true
						}
						if ap, ok := bm["additionalProperties"]; ok && ap != false {
							f[strings.ToLower(ck)+"-branch-typed-addl"] = true
						}
					}
				}
			}
			for _, k := range space.SortedKeys(x) {
				switch k {
				case "properties", "$defs", "definitions", "patternProperties", "dependentSchemas":
					walk(x[k], true)
				case "default", "enum", "required", "goJSONSchema":
				default:
					walk(x[k], false)
				}
			}
		}
	}
	walk(schema, false)
	// a definition that requires a property referring to itself
	if root, ok := schema.(map[string]any); ok {
		for _, dk := range []string{"$defs", "definitions"} {
			defs, _ := root[dk].(map[string]any)
			for name, d := range defs {
				dm, _ := d.(map[string]any)
				props, _ := dm["properties"].(map[string]any)
				for _, r := range toStrings(dm["required"]) {
					if pm, ok := props[r].(map[string]any); ok {
						if ref, _ := pm["$ref"].(string); ref == "#/"+dk+"/"+name {
							f["required-self-ref"] = true
						}
					}
				}
			}
		}
	}
	// an enum constant is named <name of the enum type><value>; nothing keeps that name apart from other declarations: a constant of
	// the enum under key N with value V meets a property / definition whose name ends in N+V, or a constant N2+V2 of another enum
	{
		norm := func(s string) string { return strings.ToLower(nonAlnum.ReplaceAllString(s, "")) }
		var names []string             // keys of properties / definitions (normalised)
		constOf := map[string]string{} // normalised key+value -> key of the enum
		var collect func(v any)
		collect = func(v any) {
			switch x := v.(type) {
			case []any:
				for _, e := range x {
					collect(e)
				}
			case map[string]any:
				for _, ck := range []string{"properties", "$defs", "definitions"} {
					if pm, ok := x[ck].(map[string]any); ok {
						for _, k := range space.SortedKeys(pm) {
							names = append(names, norm(k))
							if em, ok := pm[k].(map[string]any); ok {
								if en, ok := em["enum"].([]any); ok {
									for _, e := range en {
										if sv, ok := e.(string); ok {
											c := norm(k) + norm(sv)
											if other, dup := constOf[c]; dup && other != k {
												f["enum-const-collision"] = true
											}
											constOf[c] = k
										}
									}
								}
							}
						}
					}
				}
				for _, k := range space.SortedKeys(x) {
					collect(x[k])
				}
			}
		}
		collect(schema)
		for c := range constOf {
			for _, n := range names {
				if n != "" && strings.HasSuffix(n, c) {
					f["enum-const-collision"] = true
				}
			}
		}
	}
	return f
}

func toStrings(v any) []string {
	var o []string
	if l, ok := v.([]any); ok {
		for _, e := range l {
			if s, ok := e.(string); ok {
				o = append(o, s)
			}
		}
	}
	return o
}

var nonAlnum = regexp.MustCompile(`[^A-Za-z0-9]`)

var buildLine = regexp.MustCompile(`(?m)^\s*\+build\b`)

func wrappedEnum(enum []any, types []string) bool {
	if len(types) == 1 {
		return types[0] == "null"
	}
	kind := ""
	for _, e := range enum {
		k := fmt.Sprintf("%T", e)
		if e == nil {
			return true
		}
		if kind == "" {
			kind = k
		} else if kind != k {
			return true
		}
	}
	return false
}

func toFloat(v any) (float64, bool) {
	switch n := v.(type) {
	case float64:
		return n, true
	case int:
		return float64(n), true
	case json.Number:
		f, err := n.Float64()
		return f, err == nil
	}
	return 0, false
}

func typeNames(t any) []string {
	switch x := t.(type) {
	case string:
		return []string{x}
	case []any:
		var o []string
		for _, e := range x {
			if s, ok := e.(string); ok {
				o = append(o, s)
			}
		}
		return o
	}
	return nil
}

func contains(l []string, s string) bool {
	for _, x := range l {
		if x == s {
			return true
		}
	}
	return false
}

// genRule attributes a known generator-level defect: diagnostic pattern + schema feature.
type genRule struct {
	name    string
	re      *regexp.Regexp
	feature string // "" = no feature predicate
}

var c01Rules = []genRule{
	{"DEFAULT_NULLABLE_LITERAL", regexp.MustCompile(`cannot use .* as \*[\w.]+ value in assignment`), "default+nullable"},
	{"DEFAULT_FORMAT_LITERAL", regexp.MustCompile(`cannot use "[^"]*" \(untyped string constant\) as \*?(netip\.Addr|time\.Time|types\.Serializable(Date|Time)) value in assignment`), "default+format"},
	{"DEFAULT_OBJECT_LITERAL", regexp.MustCompile(`(cannot use .* as [*\w.]+ value in struct literal|unknown field \w+ in struct literal|cannot use map\[string\]interface ?\{\}.* as [\w.]+ value in assignment|missing type in composite literal|invalid composite literal type|cannot use map\[string\]\w+\{.*\} .* as [\w.]+ value in assignment)`), "default+object"},
	{"DEFAULT_NESTED_ARRAY_LITERAL", regexp.MustCompile(`cannot use \[\]interface ?\{\}.* as \[\][\w.]+ value in (array or slice literal|assignment)`), "default+array-array"},
	{"DEFAULT_MIXED_ENUM_LITERAL", regexp.MustCompile(`cannot use .* \(untyped \w+ constant.*\) as \w+ value in assignment`), "default+wrapped-enum"},
	{"NOOP_NUMERIC_UNUSED_FMT", regexp.MustCompile(`"fmt" imported and not used`), "noop-numeric"},
	{"UNTYPED_ADDL_MISSING_IMPORTS", regexp.MustCompile(`undefined: (reflect|strings|mapstructure|raw)`), "props+untyped-addl"},
	{"ENUM_CONST_COLLISION", regexp.MustCompile(`(\w+ redeclared in this block|other declaration of \w+)`), "enum-const-collision"},
	{"ANYOF_BRANCH_TYPED_ADDL_MISSING_IMPORTS", regexp.MustCompile(`undefined: (reflect|strings|mapstructure|raw)`), "anyof-branch-typed-addl"},
	{"ANYOF_NON_OBJECT_BRANCH_UNDEFINED", regexp.MustCompile(`undefined: \w+_\d+`), "anyof-non-object-branch"},
	{"ANYOF_REF_TO_METHODLESS_DEFINITION", regexp.MustCompile(`\w+\.Unmarshal(JSON|YAML) undefined \(type \w+ has no field or method Unmarshal(JSON|YAML)\)`), "anyof-ref-branch"},
	{"ENUM_WITH_FORMAT_MISSING_IMPORT", regexp.MustCompile(`undefined: (time|netip|types)`), "enum+format"},
	{"SIZED_BOUND_NOT_REPRESENTABLE", regexp.MustCompile(`-?\d+ \(untyped int constant\) overflows u?int\d*`), "integer-bounds-not-representable"},
	{"DESCRIPTION_BUILD_CONSTRAINT", regexp.MustCompile(`^not gofmt-stable$`), "description-build-line"},
	{"PATTERN_BACKTICK", regexp.MustCompile(`^(parse: |format warning: )`), "pattern-backtick"},
	{"NUL_IN_TEXT", regexp.MustCompile(`illegal character NUL`), "nul-in-text"},
	{"RECURSIVE_REQUIRED_NOT_POINTER", regexp.MustCompile(`invalid recursive type`), "required-self-ref"},
	{"INT_MULTIPLEOF_LT1", regexp.MustCompile(`(invalid operation: )?division by zero`), "int-multipleOf<1"},
}

// attributeDiag attributes every diagnostic line of a non-compiling program to a listed rule, or reports a violation.
func attributeDiag(ctx *Ctx, id string, schema any, diags []string, rules []genRule, replay any) {
	feats := features(schema)
	used := map[string]bool{}
	for _, l := range diags {
		l = strings.TrimSpace(l)
		if l == "" || strings.HasPrefix(l, "too many errors") {
			continue
		}
		ok := false
		for _, r := range rules {
			if ctx.Run.Listed(r.name) && r.re.MatchString(l) && (r.feature == "" || feats[r.feature]) {
				used[r.name] = true
				ok = true
				break
			}
		}
		if !ok {
			ctx.Run.Violation("compile:"+normCompileMsg(l), fmt.Sprintf("%s: emitted code is not valid Go: %s", id, l), replay)
			return
		}
	}
	for r := range used {
		ctx.Run.Known(r, id+": "+strings.Join(diags, " | "), replay)
	}
}

package props

import (
	"fmt"
	"strings"

	"verif/internal/jsonv"
	"verif/internal/refmodel"
	"verif/internal/space"
)

func init() {
	register("C04", "exploration", c04)
	ruleText["C04"] = "object schemas with 3 (thorough: also 4) properties drawn from {string, nullable string, integer with default, object, array, $ref} x every subset as required (+ a required key that is not declared) x the object placed at root, nested property, array element, map value, definition, allOf branch, anyOf branch; " +
		"documents = the fully populated valid document with every subset of keys removed, and nullable keys set to null; verdict compared with the reference model; non-trivial = at least one key removed or nulled; distinct = (source hash, document)"
}

var c04Devs = []string{"REQUIRED_UNDECLARED_IGNORED", "UNENFORCED_MAPVAL_REQUIRED", "UNENFORCED_INMAP_REQUIRED", "ANYOF_REQUIRED_MERGED"}

type c04Kind struct {
	name     string
	s        J
	nullable bool
}

func c04Kinds() []c04Kind {
	return []c04Kind{
		{"str", J{"type": "string"}, false},
		{"nstr", J{"type": A{"string", "null"}}, true},
		{"intdef", J{"type": "integer", "default": 5}, false},
		{"obj", J{"type": "object", "properties": J{"k": J{"type": "string"}}, "required": A{"k"}}, false},
		{"arr", J{"type": "array", "items": J{"type": "string"}}, false},
		{"ref", J{"$ref": "#/$defs/R"}, false},
		{"nint", J{"type": A{"null", "integer"}}, true},
		{"strdef", J{"type": "string", "default": "d"}, false},
		{"map", J{"type": "object", "additionalProperties": J{"type": "string"}}, false},
		{"anymap", J{"type": "object"}, false},
	}
}

type c04Pos struct {
	name string
	wrap func(o J) J
	path []any
}

func c04Positions(level int) []c04Pos {
	other := J{"type": "object", "properties": J{"zz": J{"type": "integer"}}}
	otherReq := J{"type": "object", "properties": J{"zz": J{"type": "integer"}}, "required": A{"zz"}}
	ps := []c04Pos{
		{"root", func(o J) J { return o }, nil},
		{"nested", func(o J) J { return J{"type": "object", "properties": J{"o": o}, "required": A{"o"}} }, []any{"o"}},
		{"item", func(o J) J {
			return J{"type": "object", "properties": J{"a": J{"type": "array", "items": o}}, "required": A{"a"}}
		}, []any{"a", 0}},
		{"mapval", func(o J) J {
			return J{"type": "object", "properties": J{"m": J{"type": "object", "additionalProperties": o}}, "required": A{"m"}}
		}, []any{"m", "k1"}},
		{"def", func(o J) J {
			return J{"type": "object", "properties": J{"p": J{"$ref": "#/$defs/O"}}, "required": A{"p"}, "$defs": J{"O": o}}
		}, []any{"p"}},
		{"allof", func(o J) J {
			return J{"type": "object", "properties": J{"c": J{"allOf": A{o, other}}}, "required": A{"c"}}
		}, []any{"c"}},
		{"anyof", func(o J) J {
			return J{"type": "object", "properties": J{"c": J{"anyOf": A{o, otherReq}}}, "required": A{"c"}}
		}, []any{"c"}},
	}
	// the "tighten a base type" idiom: the required list sits in an untyped allOf branch (inline base, base by reference)
	ps = append(ps,
		c04Pos{"allof-tighten", func(o J) J {
			base := space.Clone(o)
			rq := base["required"]
			delete(base, "required")
			branches := A{base}
			if rq != nil {
				branches = append(branches, J{"required": rq})
			}
			return J{"type": "object", "properties": J{"c": J{"allOf": branches}}, "required": A{"c"}}
		}, []any{"c"}},
		c04Pos{"allof-tighten-ref", func(o J) J {
			base := space.Clone(o)
			rq := base["required"]
			delete(base, "required")
			branches := A{J{"$ref": "#/$defs/Base"}}
			if rq != nil {
				branches = append(branches, J{"required": rq})
			}
			return J{"type": "object", "properties": J{"c": J{"allOf": branches}}, "required": A{"c"}, "$defs": J{"Base": base}}
		}, []any{"c"}})
	// the object that carries the required list also says something about undeclared keys (the catch-all field is added to the same struct)
	withAP := func(o J, ap any) J {
		c := space.Clone(o)
		c["additionalProperties"] = ap
		return c
	}
	ps = append(ps,
		c04Pos{"root+ap-string", func(o J) J { return withAP(o, J{"type": "string"}) }, nil},
		c04Pos{"nested+ap-integer", func(o J) J {
			return J{"type": "object", "properties": J{"o": withAP(o, J{"type": "integer"})}, "required": A{"o"}}
		}, []any{"o"}},
		c04Pos{"def+ap-false", func(o J) J {
			return J{"type": "object", "properties": J{"p": J{"$ref": "#/$defs/O"}}, "required": A{"p"}, "$defs": J{"O": withAP(o, false)}}
		}, []any{"p"}},
		c04Pos{"item+ap-true", func(o J) J {
			return J{"type": "object", "properties": J{"a": J{"type": "array", "items": withAP(o, true)}}, "required": A{"a"}}
		}, []any{"a", 0}})
	if level >= 1 {
		ps = append(ps,
			c04Pos{"optnested", func(o J) J { return J{"type": "object", "properties": J{"o": o}} }, []any{"o"}},
			c04Pos{"defitem", func(o J) J {
				return J{"type": "object", "properties": J{"a": J{"type": "array", "items": J{"$ref": "#/definitions/O"}}}, "definitions": J{"O": o}}
			}, []any{"a", 0}},
			c04Pos{"item2", func(o J) J {
				return J{"type": "object", "properties": J{"a": J{"type": "array", "items": J{"type": "array", "items": o}}}}
			}, []any{"a", 0, 0}},
			c04Pos{"allof-ref", func(o J) J {
				return J{"type": "object", "properties": J{"c": J{"allOf": A{J{"$ref": "#/$defs/O"}, other}}}, "required": A{"c"}, "$defs": J{"O": o}}
			}, []any{"c"}},
		)
	}
	return ps
}

// c04Family returns the C04 programs (for re-use by C17).
func c04Family(level int) []SCase {
	cases, _ := c04Cases(level)
	return cases
}

func c04(ctx *Ctx) {
	cases, paths := c04Cases(ctx.Level)
	runBehaviour(ctx, behaviour{Name: "required", Cases: cases, Devs: c04Devs, Respell: true,
		DocGen: func(sc *SCase, m *refmodel.Model) []refmodel.Doc {
			base := m.Docs(1)[0].V
			return c04Docs(base, paths[sc.ID])
		}})
	// two schemas that map to the same Go type name and differ only in their required lists: each keeps its own list
	var same []SCase
	for i, pair := range [][2]A{{{"s"}, {"t"}}, {{"s"}, {}}, {{}, {"s"}}, {{"s", "t"}, {"s"}}} {
		mk := func(r A) J {
			o := J{"type": "object", "properties": J{"s": J{"type": "string"}, "t": J{"type": "integer"}}}
			if len(r) > 0 {
				o["required"] = r
			}
			return o
		}
		same = append(same, SCase{ID: fmt.Sprintf("C04/same-type-name/inline-vs-def/%d", i), Cfg: baseCfg(), Axes: map[string]string{"pos": "same-type-name", "leaf": fmt.Sprint(i)},
			Schema: J{"type": "object", "properties": J{"a": J{"type": "object", "properties": J{"b": mk(pair[0])}}, "viaRef": J{"$ref": "#/$defs/SAB"}}, "$defs": J{"SAB": mk(pair[1])}}})
		same = append(same, SCase{ID: fmt.Sprintf("C04/same-type-name/two-defs/%d", i), Cfg: baseCfg(), Axes: map[string]string{"pos": "same-type-name", "leaf": fmt.Sprint(i)},
			Schema: J{"type": "object", "properties": J{"x": J{"$ref": "#/$defs/limits"}, "y": J{"$ref": "#/$defs/Limits"}}, "$defs": J{"limits": mk(pair[0]), "Limits": mk(pair[1])}}})
	}
	// ... or only in whether a required property carries a default (which waives the presence check)
	for i, pair := range [][2]any{{"dflt", nil}, {nil, "dflt"}} {
		mk := func(d any) J {
			sp := J{"type": "string"}
			if d != nil {
				sp["default"] = d
			}
			return J{"type": "object", "properties": J{"s": sp, "t": J{"type": "integer"}}, "required": A{"s"}}
		}
		same = append(same, SCase{ID: fmt.Sprintf("C04/same-type-name/inline-vs-def/default-%d", i), Cfg: baseCfg(), Axes: map[string]string{"pos": "same-type-name", "leaf": fmt.Sprintf("default-%d", i)},
			Schema: J{"type": "object", "properties": J{"a": J{"type": "object", "properties": J{"b": mk(pair[0])}}, "viaRef": J{"$ref": "#/$defs/SAB"}}, "$defs": J{"SAB": mk(pair[1])}}})
		same = append(same, SCase{ID: fmt.Sprintf("C04/same-type-name/two-defs/default-%d", i), Cfg: baseCfg(), Axes: map[string]string{"pos": "same-type-name", "leaf": fmt.Sprintf("default-%d", i)},
			Schema: J{"type": "object", "properties": J{"x": J{"$ref": "#/$defs/limits"}, "y": J{"$ref": "#/$defs/Limits"}}, "$defs": J{"limits": mk(pair[0]), "Limits": mk(pair[1])}}})
	}
	runBehaviour(ctx, behaviour{Name: "same-type-name", Cases: same, Devs: c04Devs, K: 1})
	// required properties whose names carry characters that mean something in the emitted check (the name is pasted into a map lookup and
	// into a format string): names that the struct-tag syntax can carry
	var named []SCase
	for _, n := range []string{"cpu%", "%d items", "100%%", "a b", "x.y", "a-b", "ünï", "A", "_"} {
		for _, nullable := range []bool{false, true} {
			ps := J{"type": "string"}
			if nullable {
				ps = J{"type": A{"string", "null"}}
			}
			id := fmt.Sprintf("C04/special-name/%q/nullable=%v", n, nullable)
			named = append(named, SCase{ID: id, Cfg: baseCfg(), Axes: map[string]string{"pos": "special-name", "leaf": n},
				Schema: J{"type": "object", "properties": J{n: ps, "other": J{"type": "integer"}}, "required": A{n}}})
		}
	}
	runBehaviour(ctx, behaviour{Name: "special-names", Cases: named, Devs: c04Devs, K: 1})
	ctx.Run.Assume("a property that declares a default is never required (statement: 'and not given a default')",
		"null for a required non-nullable property is outside the statement and not generated")
}

func c04Cases(level int) ([]SCase, map[string][]any) {
	kinds := c04Kinds()
	var triples [][]int
	if level == 0 {
		triples = [][]int{{0, 1, 2}, {3, 4, 5}, {6, 7, 0}, {8, 9, 4}}
	} else {
		for i := 0; i < len(kinds); i++ {
			for j := i + 1; j < len(kinds); j++ {
				for k := j + 1; k < len(kinds); k++ {
					triples = append(triples, []int{i, j, k})
				}
			}
		}
		triples = append(triples, []int{0, 1, 2, 3}, []int{4, 5, 6, 7}, []int{1, 3, 5, 7})
	}
	names := []string{"a", "b", "c", "d"}
	var cases []SCase
	paths := map[string][]any{}
	for _, pos := range c04Positions(level) {
		for _, tr := range triples {
			n := len(tr)
			for mask := 0; mask < 1<<n; mask++ {
				for _, ghost := range []bool{false, true} {
					if ghost && (mask != 0 && mask != 1<<n-1) {
						continue
					}
					props := J{}
					var kn []string
					var reqd A
					for i, ki := range tr {
						props[names[i]] = space.Clone(kinds[ki].s)
						kn = append(kn, kinds[ki].name)
						if mask&(1<<i) != 0 {
							reqd = append(reqd, names[i])
						}
					}
					if ghost {
						reqd = append(reqd, "ghost")
					}
					o := J{"type": "object", "properties": props}
					if len(reqd) > 0 {
						o["required"] = reqd
					}
					root := pos.wrap(o)
					hasRef := false
					for _, ki := range tr {
						if kinds[ki].name == "ref" {
							hasRef = true
						}
					}
					if hasRef {
						dk := "$defs"
						if _, ok := root["definitions"]; ok {
							dk = "definitions"
						}
						defs, _ := root[dk].(J)
						if defs == nil {
							defs = J{}
						}
						defs["R"] = J{"type": "object", "properties": J{"rk": J{"type": "integer"}}, "required": A{"rk"}}
						root[dk] = defs
					}
					id := fmt.Sprintf("C04/%s/%s/req=%0*b/ghost=%v", pos.name, strings.Join(kn, "+"), n, mask, ghost)
					paths[id] = pos.path
					cases = append(cases, SCase{ID: id, Schema: root, Cfg: baseCfg(), Axes: map[string]string{"pos": pos.name, "leaf": strings.Join(kn, "+")}})
				}
			}
		}
	}
	return cases, paths
}

func getPath(v any, path []any) any {
	for _, p := range path {
		switch k := p.(type) {
		case string:
			m, ok := v.(map[string]any)
			if !ok {
				return nil
			}
			v = m[k]
		case int:
			a, ok := v.([]any)
			if !ok || k >= len(a) {
				return nil
			}
			v = a[k]
		}
	}
	return v
}

func setPath(v any, path []any, nv any) any {
	if len(path) == 0 {
		return nv
	}
	switch k := path[0].(type) {
	case string:
		m := v.(map[string]any)
		m[k] = setPath(m[k], path[1:], nv)
	case int:
		a := v.([]any)
		a[k] = setPath(a[k], path[1:], nv)
	}
	return v
}

func c04Docs(base any, path []any) []refmodel.Doc {
	obj, ok := getPath(base, path).(map[string]any)
	if !ok {
		return nil
	}
	keys := jsonv.Keys(obj)
	var out []refmodel.Doc
	seen := map[string]bool{}
	add := func(o map[string]any, class string) {
		d := setPath(jsonv.Clone(base), path, o)
		t := jsonv.Text(d)
		if seen[t] {
			return
		}
		seen[t] = true
		out = append(out, refmodel.Doc{V: d, Text: t, Class: class})
	}
	for mask := 0; mask < 1<<len(keys); mask++ {
		o := map[string]any{}
		var removed []string
		for i, k := range keys {
			if mask&(1<<i) == 0 {
				o[k] = jsonv.Clone(obj[k])
			} else {
				removed = append(removed, k)
			}
		}
		class := "base"
		if len(removed) > 0 {
			class = fmt.Sprintf("absent:%d(%s)", len(removed), strings.Join(removed, ","))
		}
		add(o, class)
		for k := range o {
			n := jsonv.Clone(o).(map[string]any)
			n[k] = nil
			add(n, class+"+null("+k+")")
			// present with the empty value of its type: presence, not truthiness, satisfies "required"
			z := jsonv.Clone(o).(map[string]any)
			switch o[k].(type) {
			case string:
				z[k] = ""
			case []any:
				z[k] = []any{}
			case map[string]any:
				continue
			case bool:
				z[k] = false
			default:
				z[k] = jsonv.MustParse("0")
			}
			add(z, class+"+empty("+k+")")
		}
	}
	return out
}

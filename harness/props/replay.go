package props

import (
	"encoding/json"
	"fmt"
	"os"
	"path/filepath"

	"verif/drv"
	"verif/internal/batch"
	"verif/internal/genlab"
	"verif/internal/jsonv"
	"verif/internal/refmodel"
	"verif/internal/ws"
)

// Replay re-runs the single case of a replay file without the explorer.
func Replay(path string) int {
	b, err := os.ReadFile(path)
	if err != nil {
		fmt.Fprintln(os.Stderr, err)
		return 2
	}
	var r struct {
		Property  string `json:"property"`
		Signature string `json:"signature"`
		Message   string `json:"message"`
		Case      struct {
			Kind     string        `json:"kind"`
			Files    []genlab.File `json:"files"`
			Args     []string      `json:"args"`
			Cfg      genlab.Cfg    `json:"cfg"`
			Type     string        `json:"type"`
			Mode     string        `json:"mode"`
			Document string        `json:"document"`
		} `json:"case"`
	}
	if err := json.Unmarshal(b, &r); err != nil {
		fmt.Fprintln(os.Stderr, "replay file:", err)
		return 2
	}
	fmt.Printf("property %s, recorded: [%s] %s\n", r.Property, r.Signature, r.Message)
	args := r.Case.Args
	if len(args) == 0 {
		args = []string{"s.json"}
	}
	gc := genlab.Case{ID: "replay", Files: r.Case.Files, Args: args, Cfg: r.Case.Cfg}
	pool := genlab.NewPool(filepath.Join(ws.Root(), "exports.txt"))
	switch r.Case.Kind {
	case "gen":
		resp, err := pool.RunAll([]genlab.Job{{Op: "gen", Case: &gc, Check: true, KeepOutputs: true}})
		if err != nil {
			fmt.Fprintln(os.Stderr, err)
			return 2
		}
		x := resp[0]
		fmt.Printf("generator: err=%q panic=%q crash=%q warnings=%q\n", x.Res.Err, firstLine(x.Res.Panic), firstLine(x.Crash), x.Res.Warnings)
		bad := false
		for n, d := range x.Diags {
			fmt.Printf("output %s: %s\n", n, map[bool]string{true: "OK", false: d.Summary()}[d.OK()])
			if !d.OK() {
				bad = true
				fmt.Println(x.Res.Outputs[n])
			}
		}
		if bad {
			return 1
		}
		return 0
	case "decode":
		bt, err := batch.Build(pool, "replay", []genlab.Case{gc})
		if err != nil {
			fmt.Fprintln(os.Stderr, err)
			return 2
		}
		defer bt.Cleanup()
		p := bt.Programs[0]
		if p.GenErr != "" || p.BuildErr != "" {
			fmt.Printf("program: generation=%q build=%q\n", p.GenErr, p.BuildErr)
			return 1
		}
		m, err := refmodel.New(filesOf(gc), "s.json")
		if err != nil {
			fmt.Fprintln(os.Stderr, err)
			return 2
		}
		m.MinSized = gc.Cfg.MinSizedInts
		doc, derr := jsonv.Parse(r.Case.Document)
		code := 0
		err = bt.Run([]batch.Task{{Prog: p, Type: r.Case.Type, Mode: r.Case.Mode, Doc: r.Case.Document}}, func(t *batch.Task, o *drv.Obs) {
			fmt.Printf("document: %s\nobserved: err=%q panic=%q\n  value=%s\n  remarshal=%s\n", r.Case.Document, o.Err, firstLine(o.Panic), o.Walk, o.Re)
			if derr == nil {
				tv := m.Valid(doc)
				fmt.Printf("model (TRUE): %s %s\n", tv, m.Why)
				if tv == refmodel.Accept {
					fmt.Printf("model value: %s\n", jsonv.Text(m.Expect(doc)))
				}
				ov := refmodel.Accept
				if o.Err != "" || o.Panic != "" {
					ov = refmodel.Reject
				}
				if tv != refmodel.Unspec && tv != ov {
					code = 1
				}
			}
		})
		if err != nil {
			fmt.Fprintln(os.Stderr, err)
			return 2
		}
		fmt.Println(p.Source)
		return code
	default:
		fmt.Printf("replay kind %q: the case is fully described in the file; no automatic replay\n%s\n", r.Case.Kind, b)
		return 0
	}
}

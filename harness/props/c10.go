package props

import (
	"fmt"
	"go/ast"
	"go/parser"
	"go/token"
	"regexp"
	"strings"

	"verif/internal/batch"
	"verif/internal/genlab"
	"verif/internal/jsonv"
	"verif/internal/refmodel"
	"verif/internal/space"
)

func init() {
	register("C10", "exploration", c10)
	ruleText["C10"] = "part A (transparency): base object schemas (string / integer / array-of-objects / nested object / enum / map members) x every non-empty subset (<= 2; thorough <= 3) of subschema positions factored out into #/$defs/N, #/definitions/N, a sibling file, a file in a sub-directory, a file in the parent directory, as .json or flow-style .yaml, referenced with or without extension (--resolve-extension), two referrers per definition; " +
		"the reference model first confirms on every document that the factored schema is equivalent to the inline one; the factored program is generated, compiled and fed every enumerated document; oracle = verdict and decoded value tree as the model says, and exactly one type declaration per definition; " +
		"part B (recursion): reference graphs over <= 3 definitions (self loop, 2- and 3-cycles through properties, array items, map values, allOf, anyOf, required and optional edges): the generator terminates in a worker (60 s), the output compiles, documents nested to the enumerator's depth decode as the model says; " +
		"part C (loader state): the same relative reference text in two directories, all DoFile histories (shared with C20); part D (one reference text, several documents): four documents, each with its own #/$defs/Common referred to by the same text as allOf member / anyOf member / property, with distinct ids and without ids: every history of <= 2 (thorough: <= 4) documents on one generator must yield the union of the single-document declarations up to the generator's renaming of colliding names; non-trivial = differs from base; distinct = (source hash, document)"
}

var c10Devs = []string{"RECURSIVE_ALLOF_UNROLLED_THEN_ANY", "NULL_OBJECT_VALIDATES_ZERO", "LEN_BYTES", "UNENFORCED_NAMED_ARRAY", "UNENFORCED_ITEM_STRING", "UNENFORCED_ITEM_NUMERIC", "REF_UNTYPED_DEF_IS_ANY", "FORMAT_DEF_NO_METHODS", "UNENFORCED_NAMED_ARRAY_ITEM_REQUIRED",
	"UNENFORCED_INLINE_STRUCT_PROPS", "COMPOSITE_DEF_REF_IS_ANY", "ANYOF_MERGED_FIELD_TYPES", "UNENFORCED_MAPVAL_STRING", "UNENFORCED_MAPVAL_NUMERIC", "UNENFORCED_MAPVAL_REQUIRED", "NULLTYPE_UNENFORCED",
	"RECURSIVE_ANYOF_IS_ANY", "DEFAULT_BEHIND_REF_IGNORED"}

type c10Mode struct {
	name    string
	ref     func(n string) string // reference text
	place   string                // defs | definitions | file
	path    func(n string) string // file path of the target (file modes)
	main    string                // main file path
	noExt   bool
	yamlExt bool
}

func c10Modes(level int) []c10Mode {
	ms := []c10Mode{
		{name: "$defs", ref: func(n string) string { return "#/$defs/" + n }, place: "defs"},
		{name: "definitions", ref: func(n string) string { return "#/definitions/" + n }, place: "definitions"},
		{name: "sibling-file", ref: func(n string) string { return n + ".json" }, place: "file", path: func(n string) string { return n + ".json" }},
		{name: "subdir-file", ref: func(n string) string { return "sub/" + n + ".json" }, place: "file", path: func(n string) string { return "sub/" + n + ".json" }},
		{name: "parent-dir-file", ref: func(n string) string { return "../" + n + ".json" }, place: "file", path: func(n string) string { return n + ".json" }, main: "dir/s.json"},
		{name: "no-extension", ref: func(n string) string { return "./" + n }, place: "file", path: func(n string) string { return n + ".json" }, noExt: true},
		{name: "yaml-file", ref: func(n string) string { return n + ".yaml" }, place: "file", path: func(n string) string { return n + ".yaml" }, yamlExt: true},
	}
	if level >= 1 {
		ms = append(ms,
			c10Mode{name: "file-scheme", ref: func(n string) string { return "file://./" + n + ".json" }, place: "file", path: func(n string) string { return n + ".json" }},
			c10Mode{name: "file-def", ref: func(n string) string { return "lib.json#/$defs/" + n }, place: "libfile"},
		)
	}
	return ms
}

type c10Pos struct {
	name string
	get  func(root J) J
	set  func(root J, v J)
}

func c10Base() (J, []c10Pos) {
	base := J{"type": "object",
		"properties": J{
			"s":  J{"type": "string", "minLength": 2},
			"s2": J{"type": "string", "minLength": 2},
			"n":  J{"type": "integer", "minimum": 1, "maximum": 9},
			"a":  J{"type": "array", "minItems": 1, "items": J{"type": "object", "properties": J{"k": J{"type": "string"}}, "required": A{"k"}}},
			"o":  J{"type": "object", "properties": J{"in": J{"type": "string", "maxLength": 3}, "req": J{"type": "integer"}}, "required": A{"req"}},
			"e":  J{"type": "string", "enum": A{"x", "y"}},
			"m":  J{"type": "object", "additionalProperties": J{"type": "string"}},
			"dv": J{"type": "integer", "minimum": 1, "default": 5},
		},
		"required": A{"s", "o"}}
	prop := func(name string, keys ...string) c10Pos {
		return c10Pos{name,
			func(r J) J {
				cur := r["properties"].(J)
				for _, k := range keys[:len(keys)-1] {
					cur = cur[k].(J)
				}
				return cur[keys[len(keys)-1]].(J)
			},
			func(r J, v J) {
				cur := r["properties"].(J)
				for _, k := range keys[:len(keys)-1] {
					cur = cur[k].(J)
				}
				cur[keys[len(keys)-1]] = v
			}}
	}
	pos := []c10Pos{
		prop("Str", "s"), prop("N", "n"), prop("Arr", "a"), prop("Item", "a", "items"), prop("Obj", "o"), prop("Inner", "o", "properties", "in"), prop("En", "e"), prop("Mp", "m"), prop("Dflt", "dv"),
	}
	return base, pos
}

func c10CasesA(level int) ([]SCase, map[string][]string) {
	base, pos := c10Base()
	maxSub := 2
	if level >= 1 {
		maxSub = 3
	}
	var out []SCase
	defsOf := map[string][]string{}
	for _, md := range c10Modes(level) {
		for mask := 1; mask < 1<<len(pos); mask++ {
			cnt := 0
			for x := mask; x > 0; x &= x - 1 {
				cnt++
			}
			if cnt > maxSub {
				continue
			}
			if level == 0 && cnt == 2 && md.name != "$defs" && md.name != "sibling-file" {
				continue
			}
			root := jsonvCloneJ(base)
			var extra []genlab.File
			var names []string
			lib := J{}
			bad := false
			// inner positions first so that outer factoring moves the already factored subtree
			for i := len(pos) - 1; i >= 0; i-- {
				if mask&(1<<i) == 0 {
					continue
				}
				p := pos[i]
				sub := p.get(root)
				if _, isRef := sub["$ref"]; isRef {
					bad = true
					break
				}
				names = append(names, p.name)
				ref := J{"$ref": md.ref(p.name)}
				p.set(root, ref)
				if p.name == "Str" { // second referrer of the same definition
					root["properties"].(J)["s2"] = J{"$ref": md.ref(p.name)}
				}
				switch md.place {
				case "defs", "definitions":
					key := "$defs"
					if md.place == "definitions" {
						key = "definitions"
					}
					d, _ := root[key].(J)
					if d == nil {
						d = J{}
					}
					d[p.name] = sub
					root[key] = d
				case "file":
					// a subschema that itself refers to another factored file must refer relative to its own location
					extra = append(extra, genlab.File{Path: md.path(p.name), Content: space.Text(sub)})
				case "libfile":
					lib[p.name] = sub
				}
			}
			if bad {
				continue
			}
			if md.place == "libfile" {
				extra = append(extra, genlab.File{Path: "lib.json", Content: space.Text(J{"$id": "lib", "$defs": lib})})
			}
			if md.place == "file" && cnt > 1 && (mask&(1<<2) != 0 && mask&(1<<3) != 0 || mask&(1<<4) != 0 && mask&(1<<5) != 0) && (md.name == "subdir-file" || md.name == "parent-dir-file") {
				continue // nested factored files in different directories would need re-based reference texts
			}
			cfg := baseCfg()
			if md.noExt {
				cfg.ResolveExt = []string{".json"}
			} else {
				cfg.ResolveExt = []string{".json", ".yaml"}
			}
			id := fmt.Sprintf("C10/A/%s/%s", md.name, strings.Join(names, "+"))
			defsOf[id] = names
			out = append(out, SCase{ID: id, Schema: root, Cfg: cfg, Extra: extra, Main: md.main, Axes: map[string]string{"pos": md.name, "leaf": strings.Join(names, "+")}})
		}
	}
	return out, defsOf
}

func jsonvCloneJ(j J) J { return space.Clone(j) }

func c10(ctx *Ctx) {
	casesA, defsOf := c10CasesA(ctx.Level)
	base, _ := c10Base()
	inline, err := refmodel.New(map[string]string{"s.json": space.Text(base)}, "s.json")
	if err != nil {
		harnessFail("inline model: %v", err)
	}
	runBehaviour(ctx, behaviour{Name: "transparency", Cases: casesA, Devs: c10Devs, Values: true,
		DocGen: func(sc *SCase, m *refmodel.Model) []refmodel.Doc {
			docs := inline.Docs(1)
			// the model first confirms that factoring did not change the meaning of the schema
			for _, d := range docs {
				a, b := inline.Valid(d.V), m.Valid(d.V)
				if a != b {
					harnessFail("%s: the factored schema is not equivalent to the inline schema in the reference model on %s (%s vs %s)", sc.ID, d.Text, a, b)
				}
			}
			return docs
		},
		OnProgram: func(sc *SCase, p *batch.Program) { c10OneType(ctx, sc, p, defsOf[sc.ID]) },
		OnGenErr: func(sc *SCase, msg string) {
			if sc.Axes["pos"] == "file-def" && strings.Contains(msg, "schema has no root") && ctx.Run.Listed("DEFS_ONLY_FILE_HAS_NO_ROOT") {
				ctx.Run.Known("DEFS_ONLY_FILE_HAS_NO_ROOT", sc.ID+": "+firstLine(msg), map[string]any{"kind": "gen", "files": sc.Case().Files, "args": sc.Case().Args, "cfg": sc.Case().Cfg})
				return
			}
			ctx.Run.Violation("factored-not-generated:"+sc.Axes["pos"], fmt.Sprintf("%s: the factored schema is rejected although the inline schema is accepted: %s", sc.ID, firstLine(msg)),
				map[string]any{"kind": "gen", "files": sc.Case().Files, "args": sc.Case().Args, "cfg": sc.Case().Cfg})
		},
		OnBuildErr: func(sc *SCase, msg string) {
			ctx.Run.Violation("factored-not-compiling:"+sc.Axes["pos"], fmt.Sprintf("%s: the factored program does not compile: %s", sc.ID, firstLine(msg)),
				map[string]any{"kind": "gen", "files": sc.Case().Files, "args": sc.Case().Args, "cfg": sc.Case().Cfg})
		}})
	// chains of file references across directories: every hop resolves relative to the document it occurs in, whether or not the
	// referenced root says "type": "object", and wherever the main document lies relative to the working directory
	var chains []SCase
	for _, typed := range []bool{true, false} {
		for _, mainPath := range []string{"s.json", "dir/s.json", "deep/er/s.json"} {
			up := strings.Repeat("../", strings.Count(mainPath, "/"))
			obj := J{"properties": J{"in": J{"$ref": "inner.json"}, "d": J{"$ref": "sub/deep.json"}, "x": J{"$ref": "../lib2/x.json"}, "req": J{"type": "integer"}}, "required": A{"req"}}
			inner := J{"properties": J{"v": J{"type": "string", "maxLength": 3}}}
			deep := J{"properties": J{"w": J{"type": "integer", "minimum": 1}, "back": J{"$ref": "../inner.json"}}}
			x := J{"properties": J{"y": J{"type": "string", "minLength": 2}}, "required": A{"y"}}
			if typed {
				for _, o := range []J{obj, inner, deep, x} {
					o["type"] = "object"
				}
			}
			root := J{"type": "object", "properties": J{"o": J{"$ref": up + "lib/obj.json"}, "s": J{"type": "string", "minLength": 2}}, "required": A{"o"}}
			extra := []genlab.File{{Path: "lib/obj.json", Content: space.Text(obj)}, {Path: "lib/inner.json", Content: space.Text(inner)}, {Path: "lib/sub/deep.json", Content: space.Text(deep)}, {Path: "lib2/x.json", Content: space.Text(x)}}
			cfg := baseCfg()
			cfg.ResolveExt = []string{".json"}
			chains = append(chains, SCase{ID: fmt.Sprintf("C10/A/chain/typed=%v/main=%s", typed, mainPath), Schema: root, Cfg: cfg, Extra: extra, Main: mainPath,
				Axes: map[string]string{"pos": "chain", "leaf": fmt.Sprintf("typed=%v/main=%s", typed, mainPath)}})
		}
	}
	// an extension-less file reference whose text equals the name of a type declared from a definition of the referring document
	{
		root := J{"type": "object", "properties": J{"p1": J{"$ref": "#/$defs/Thing"}, "p2": J{"$ref": "Thing"}, "p3": J{"$ref": "#/$defs/Thing"}}, "required": A{"p1"},
			"$defs": J{"Thing": J{"type": "object", "properties": J{"a": J{"type": "string"}}, "required": A{"a"}}}}
		cfg := baseCfg()
		cfg.ResolveExt = []string{".json"}
		chains = append(chains, SCase{ID: "C10/A/chain/bare-file-name-equals-definition-name", Schema: root, Cfg: cfg, Axes: map[string]string{"pos": "chain", "leaf": "bare-name"},
			Extra: []genlab.File{{Path: "Thing.json", Content: space.Text(J{"type": "object", "properties": J{"b": J{"type": "integer"}}, "required": A{"b"}})}}})
	}
	runBehaviour(ctx, behaviour{Name: "chains", Cases: chains, Devs: c10Devs, Values: true,
		DocFilter: func(sc *SCase, d *refmodel.Doc, tv refmodel.Verdict) bool { return !strings.Contains(d.Class, "type:") },
		OnGenErr: func(sc *SCase, msg string) {
			ctx.Run.Violation("chain-not-generated:"+sc.Axes["leaf"], fmt.Sprintf("%s: a chain of relative file references is rejected: %s", sc.ID, firstLine(msg)),
				map[string]any{"kind": "gen", "files": sc.Case().Files, "args": sc.Case().Args, "cfg": sc.Case().Cfg})
		},
		OnBuildErr: func(sc *SCase, msg string) {
			ctx.Run.Violation("chain-not-compiling:"+sc.Axes["leaf"], fmt.Sprintf("%s: does not compile: %s", sc.ID, firstLine(msg)),
				map[string]any{"kind": "gen", "files": sc.Case().Files, "args": sc.Case().Args, "cfg": sc.Case().Cfg})
		}})
	// one Go type per definition also when three definitions want the same name: the third must be bound to the declaration that
	// represents *its* schema, whatever the equality pattern (ABB, ABA, AAB, ABC, AAA)
	runBehaviour(ctx, behaviour{Name: "colliding-definitions", Values: true, Devs: c10Devs, Cases: collisionTriples("C10", func(i int) J {
		return []J{{"type": "object", "properties": J{"a": J{"type": "string"}}, "required": A{"a"}}, {"type": "object", "properties": J{"b": J{"type": "integer"}}, "required": A{"b"}},
			{"type": "object", "properties": J{"c": J{"type": "boolean"}}}}[i]
	}, false)})
	allB := c10CasesB(ctx.Level)
	var casesB, acceptOnly []SCase
	for _, c := range allB {
		if c.Axes["leaf"] == "self/allOf-items" || c.Axes["leaf"] == "two-cycle/allOf" || c.Axes["leaf"] == "self/two-allOf-edges" || c.Axes["leaf"] == "self/two-bare-allOf-edges" {
			acceptOnly = append(acceptOnly, c)
		} else {
			casesB = append(casesB, c)
		}
	}
	// recursion through allOf in its other shapes: where the cycle closes the position is interface{} (KF-C10-7), at a depth that depends on
	// the shape of the graph; judged here: generation terminates, the program compiles, and every VALID document of nesting depth 0..5 is accepted
	runBehaviour(ctx, behaviour{Name: "recursion-allof-shapes", Cases: acceptOnly, Devs: c10Devs,
		DocFilter: func(sc *SCase, d *refmodel.Doc, tv refmodel.Verdict) bool { return tv == refmodel.Accept },
		// two recursive edges: the generic boundary-value enumeration multiplies per level and per edge; the documents are every tree
		// over the two edges up to depth 3 (676 of them), each also judged by the model before it is used
		DocGen: func(sc *SCase, m *refmodel.Model) []refmodel.Doc {
			if sc.Axes["leaf"] != "self/two-allOf-edges" && sc.Axes["leaf"] != "self/two-bare-allOf-edges" {
				return m.Docs(1)
			}
			var trees func(d int) []map[string]any
			trees = func(d int) []map[string]any {
				if d == 0 {
					return []map[string]any{{"v": jsonv.MustParse("7")}}
				}
				sub := trees(d - 1)
				var out []map[string]any
				for i := -1; i < len(sub); i++ {
					for j := -1; j < len(sub); j++ {
						n := map[string]any{"v": jsonv.MustParse("7")}
						if i >= 0 {
							n["next"] = sub[i]
						}
						if j >= 0 {
							n["prev"] = sub[j]
						}
						out = append(out, n)
					}
				}
				return out
			}
			var docs []refmodel.Doc
			for i, t := range trees(3) {
				v := map[string]any{"t": t}
				docs = append(docs, refmodel.Doc{V: v, Text: jsonv.Text(v), Class: fmt.Sprintf("tree-%d", i)})
			}
			return docs
		},
		OnGenErr: func(sc *SCase, msg string) {
			ctx.Run.Violation("recursive-not-generated:"+sc.Axes["leaf"], fmt.Sprintf("%s: recursive schema: %s", sc.ID, firstLine(msg)), map[string]any{"kind": "gen", "files": sc.Case().Files, "args": sc.Case().Args, "cfg": sc.Case().Cfg})
		},
		OnBuildErr: func(sc *SCase, msg string) {
			ctx.Run.Violation("recursive-not-compiling:"+sc.Axes["leaf"], fmt.Sprintf("%s: the program generated for a recursive schema does not compile: %s", sc.ID, firstLine(msg)), map[string]any{"kind": "gen", "files": sc.Case().Files, "args": sc.Case().Args, "cfg": sc.Case().Cfg})
		}})
	runBehaviour(ctx, behaviour{Name: "recursion", Cases: casesB, Devs: c10Devs, Values: true,
		OnGenErr: func(sc *SCase, msg string) {
			replay := map[string]any{"kind": "gen", "files": sc.Case().Files, "args": sc.Case().Args, "cfg": sc.Case().Cfg}
			switch {
			case strings.HasPrefix(msg, "ERROR") && sc.Axes["unsat"] == "true":
				return
			case (strings.Contains(msg, "RUNAWAY") || msg == "HANG" || strings.Contains(msg, "stack overflow") || strings.HasPrefix(msg, "CRASH")) && c10NonTerminating(sc.Axes["leaf"]) && ctx.Run.Listed("TWO_RECURSIVE_ANYOF_ITEM_EDGES_NO_TERMINATION"):
				ctx.Run.Known("TWO_RECURSIVE_ANYOF_ITEM_EDGES_NO_TERMINATION", sc.ID+": "+lastLine(msg), replay)
			case strings.HasPrefix(msg, "PANIC") && sc.Axes["leaf"] == "root-self-ref" && ctx.Run.Listed("ROOT_SELF_REF_PANICS"):
				ctx.Run.Known("ROOT_SELF_REF_PANICS", sc.ID+": "+firstLine(msg), replay)
			default:
				ctx.Run.Violation("recursive-not-generated:"+sc.Axes["leaf"], fmt.Sprintf("%s: recursive schema: %s", sc.ID, firstLine(msg)), replay)
			}
		},
		OnBuildErr: func(sc *SCase, msg string) {
			replay := map[string]any{"kind": "gen", "files": sc.Case().Files, "args": sc.Case().Args, "cfg": sc.Case().Cfg}
			if strings.Contains(msg, "invalid recursive type") && sc.Axes["unsat"] == "true" && ctx.Run.Listed("RECURSIVE_REQUIRED_NOT_POINTER") {
				ctx.Run.Known("RECURSIVE_REQUIRED_NOT_POINTER", sc.ID+": "+firstLine(msg), replay)
				return
			}
			ctx.Run.Violation("recursive-not-compiling:"+sc.Axes["leaf"], fmt.Sprintf("%s: the program generated for a recursive schema does not compile: %s", sc.ID, firstLine(msg)), replay)
		},
		DocFilter: func(sc *SCase, d *refmodel.Doc, tv refmodel.Verdict) bool { return !strings.Contains(d.Class, "type:") },
	})
	// part E: a member of an allOf / anyOf list that lives in another document and has local references of its own: those references
	// belong to the document they are written in, whether or not the referring document has a definition of the same name
	var cross []SCase
	for _, comp := range []string{"allOf", "anyOf"} {
		for _, ownOther := range []bool{false, true} {
			for _, plain := range []bool{false, true} {
				lib := J{"$id": "https://example.com/lib", "type": "object", "properties": J{"z": J{"type": "string"}},
					"$defs": J{"Thing": J{"type": "object", "properties": J{"other": J{"$ref": "#/$defs/Other"}, "t": J{"type": "integer"}}},
						"Other": J{"type": "object", "properties": J{"o": J{"type": "string", "minLength": 2}}, "required": A{"o"}}}}
				var x J
				if plain {
					x = J{"$ref": "lib.json#/$defs/Thing"} // control: the same target as a plain property reference
				} else {
					x = J{comp: A{J{"$ref": "lib.json#/$defs/Thing"}, J{"type": "object", "properties": J{"extra": J{"type": "string"}}}}}
				}
				main := J{"$id": "https://example.com/main", "type": "object", "properties": J{"x": x, "k": J{"type": "string"}}}
				if ownOther {
					main["$defs"] = J{"Other": J{"type": "object", "properties": J{"mine": J{"type": "integer"}}}}
					main["properties"].(J)["mo"] = J{"$ref": "#/$defs/Other"}
				}
				id := fmt.Sprintf("C10/E/cross-file-member/%s/own-definition-of-the-same-name=%v/plain-reference=%v", comp, ownOther, plain)
				if plain && comp == "anyOf" {
					continue
				}
				cross = append(cross, SCase{ID: id, Schema: main, Cfg: baseCfg(), Extra: []genlab.File{{Path: "lib.json", Content: space.Text(lib)}},
					Axes: map[string]string{"pos": "cross-file-member", "leaf": fmt.Sprintf("%s/%v/%v", comp, ownOther, plain), "composite": comp}})
			}
		}
	}
	// one definition of another document reached three times: as a member of an allOf (extension-less reference), by a plain reference
	// with the extension written out, and by a plain extension-less reference - one Go type shared by all referrers
	{
		common := J{"$id": "https://example.com/common", "type": "object", "properties": J{"z": J{"type": "string"}},
			"$defs": J{"Base": J{"type": "object", "properties": J{"id": J{"type": "integer", "minimum": 1}}, "required": A{"id"}}}}
		main := J{"$id": "https://example.com/main", "type": "object", "properties": J{
			"first":  J{"allOf": A{J{"$ref": "common#/$defs/Base"}, J{"type": "object", "properties": J{"x": J{"type": "string"}}}}},
			"second": J{"$ref": "common.json#/$defs/Base"}, "third": J{"$ref": "common#/$defs/Base"}}}
		cross = append(cross, SCase{ID: "C10/E/one-definition-three-referrers", Schema: main, Cfg: baseCfg(), Extra: []genlab.File{{Path: "common.json", Content: space.Text(common)}},
			Axes: map[string]string{"pos": "cross-file-member", "leaf": "three-referrers", "composite": "allOf"}})
	}
	runBehaviour(ctx, behaviour{Name: "cross-file-member", Cases: cross, Devs: c10Devs, K: 1,
		OnProgram: func(sc *SCase, p *batch.Program) {
			if sc.Axes["leaf"] == "three-referrers" {
				c10OneType(ctx, sc, p, []string{"Base"})
			}
		},
		OnGenErr: func(sc *SCase, msg string) {
			ctx.Run.Violation("cross-file-member-not-generated", fmt.Sprintf("%s: %s", sc.ID, firstLine(msg)), map[string]any{"kind": "gen", "files": sc.Case().Files, "args": sc.Case().Args, "cfg": sc.Case().Cfg})
		}})
	c10CrossFileMemberPackages(ctx)
	// part C: loader state
	for _, u := range c20Universes(0) {
		if !strings.HasPrefix(u.name, "same-basename") {
			continue
		}
		for _, mp := range c20Mappings(0) {
			if mp.name == "two-packages" {
				c10LoaderState(ctx, u, mp)
			}
		}
	}
	// part D: one reference text, several documents (with distinct ids and without any id)
	for _, u := range c20Universes(0) {
		if strings.HasPrefix(u.name, "same-def-name/") {
			c10SameRefText(ctx, u)
		}
	}
	// part E: two definitions whose names give the same Go type name and that differ in one keyword only: each referrer keeps the
	// behaviour of an inline copy of ITS target (a declaration shared by mistake shows as the other definition's behaviour)
	runBehaviour(ctx, behaviour{Name: "same-name-pairs", Cases: c10SameNamePairs(), Values: true, K: 1, Devs: c10Devs,
		DocFilter: func(sc *SCase, d *refmodel.Doc, tv refmodel.Verdict) bool {
			return !strings.Contains(d.Class, "type:") && !strings.Contains(d.Class, "multibyte")
		}})
	ctx.Run.Assume("http(s) references cannot be exercised (no network)", "YAML targets are written in flow (JSON) style so that the reference model can read them",
		"sibling keywords next to $ref are not used")
}

var reSuffixed = regexp.MustCompile(`^(.*)_\d+$`)

// c10OneType: each definition yields one Go type however many referrers it has.
func c10OneType(ctx *Ctx, sc *SCase, p *batch.Program, defs []string) {
	fset := token.NewFileSet()
	f, err := parser.ParseFile(fset, "g.go", p.Source, parser.SkipObjectResolution)
	if err != nil {
		return
	}
	count := map[string]int{}
	for _, d := range f.Decls {
		gd, ok := d.(*ast.GenDecl)
		if !ok || gd.Tok != token.TYPE {
			continue
		}
		for _, sp := range gd.Specs {
			n := sp.(*ast.TypeSpec).Name.Name
			if m := reSuffixed.FindStringSubmatch(n); m != nil {
				n = m[1]
			}
			count[n]++
		}
	}
	ctx.Run.Eval(p.SourceSig+"|one-type", true)
	for n, c := range count {
		if c > 1 {
			ctx.Run.Violation("definition-declared-twice", fmt.Sprintf("%s: %d type declarations derive from the name %s (definitions: %v)", sc.ID, c, n, defs),
				map[string]any{"kind": "gen", "files": p.Case.Files, "args": p.Case.Args, "cfg": p.Case.Cfg})
			return
		}
	}
}

// c10NonTerminating names the recursion shapes on which the generator is known not to terminate (KF-C10-8): both come from the order in
// which generateAnyOfType removes its cycle marks.
func c10NonTerminating(leaf string) bool {
	return leaf == "self/two-anyOf-item-edges" || leaf == "self/typed-definition-with-own-anyOf"
}

func c10CasesB(level int) []SCase {
	var out []SCase
	str, in := J{"type": "string"}, J{"type": "integer", "minimum": 0}
	ref := func(n string) J { return J{"$ref": "#/$defs/" + n} }
	add := func(name string, unsat bool, rootProps J, defs J) {
		s := J{"type": "object", "properties": rootProps, "$defs": defs}
		out = append(out, SCase{ID: "C10/B/" + name, Schema: s, Cfg: baseCfg(), Axes: map[string]string{"pos": "recursion", "leaf": name, "unsat": fmt.Sprint(unsat)}})
	}
	add("self/prop-optional", false, J{"t": ref("T")}, J{"T": J{"type": "object", "properties": J{"v": in, "next": ref("T")}, "required": A{"v"}}})
	add("self/items", false, J{"t": ref("T")}, J{"T": J{"type": "object", "properties": J{"v": str, "kids": J{"type": "array", "items": ref("T")}}}})
	add("self/map-values", false, J{"t": ref("T")}, J{"T": J{"type": "object", "properties": J{"v": str, "m": J{"type": "object", "additionalProperties": ref("T")}}}})
	add("self/prop-required", true, J{"t": ref("T")}, J{"T": J{"type": "object", "properties": J{"v": in, "next": ref("T")}, "required": A{"next"}}})
	add("two-cycle/props", false, J{"a": ref("A")}, J{"A": J{"type": "object", "properties": J{"x": in, "b": ref("B")}}, "B": J{"type": "object", "properties": J{"y": str, "a": ref("A")}, "required": A{"y"}}})
	add("two-cycle/items", false, J{"a": ref("A")}, J{"A": J{"type": "object", "properties": J{"bs": J{"type": "array", "items": ref("B")}}}, "B": J{"type": "object", "properties": J{"as": J{"type": "array", "maxItems": 2, "items": ref("A")}, "y": str}}})
	add("three-cycle/props", false, J{"a": ref("A")}, J{"A": J{"type": "object", "properties": J{"b": ref("B"), "x": in}}, "B": J{"type": "object", "properties": J{"c": ref("C")}}, "C": J{"type": "object", "properties": J{"a": ref("A"), "z": str}}})
	add("self/allOf", false, J{"t": ref("T")}, J{"T": J{"type": "object", "properties": J{"v": in, "next": J{"allOf": A{ref("T"), J{"type": "object", "properties": J{"extra": str}}}}}}})
	add("self/anyOf", false, J{"t": ref("T")}, J{"T": J{"type": "object", "properties": J{"v": in, "alt": J{"anyOf": A{ref("T"), J{"type": "object", "properties": J{"leaf": str}, "required": A{"leaf"}}}}}}})
	// recursion through allOf in the other shapes: through items, through a second definition, mixed with anyOf
	add("self/allOf-items", false, J{"t": ref("T")}, J{"T": J{"type": "object", "properties": J{"v": in, "kids": J{"type": "array", "items": J{"allOf": A{ref("T")}}}}}})
	add("two-cycle/allOf", false, J{"a": ref("A")}, J{"A": J{"type": "object", "properties": J{"x": in, "b": J{"allOf": A{ref("B")}}}}, "B": J{"type": "object", "properties": J{"y": str, "a": J{"allOf": A{ref("A")}}}}})
	// two properties of one definition that both lead back to it through allOf
	add("self/two-allOf-edges", false, J{"t": ref("T")}, J{"T": J{"type": "object", "properties": J{"v": in, "next": J{"allOf": A{ref("T"), J{"type": "object", "properties": J{"extra": str}}}}, "prev": J{"allOf": A{ref("T")}}}}})
	add("self/two-bare-allOf-edges", false, J{"t": ref("T")}, J{"T": J{"type": "object", "properties": J{"v": in, "next": J{"allOf": A{ref("T")}}, "prev": J{"allOf": A{ref("T")}}}}})
	// two array properties of one definition, each with items that are an anyOf back to the definition
	leafObj := J{"type": "object", "properties": J{"s": str}, "required": A{"s"}}
	add("self/two-anyOf-item-edges", false, J{"t": ref("T")}, J{"T": J{"type": "object", "properties": J{"l": J{"type": "array", "items": J{"anyOf": A{ref("T"), leafObj}}}, "r": J{"type": "array", "items": J{"anyOf": A{ref("T"), leafObj}}}}}})
	// a typed definition whose own anyOf list refers back to it
	add("self/typed-definition-with-own-anyOf", false, J{"t": ref("T"), "x": J{"type": "boolean"}}, J{"T": J{"type": "object", "anyOf": A{ref("T"), leafObj}}})
	add("root-self-ref", false, J{"v": in, "again": J{"$ref": "#"}}, J{})
	if level >= 1 {
		add("self/two-edges", false, J{"t": ref("T")}, J{"T": J{"type": "object", "properties": J{"l": ref("T"), "r": ref("T"), "v": in}}})
		add("two-cycle/required-one-way", false, J{"a": ref("A")}, J{"A": J{"type": "object", "properties": J{"b": ref("B")}, "required": A{"b"}}, "B": J{"type": "object", "properties": J{"a": ref("A"), "y": str}}})
		add("two-cycle/map+items", false, J{"a": ref("A")}, J{"A": J{"type": "object", "properties": J{"m": J{"type": "object", "additionalProperties": ref("B")}}}, "B": J{"type": "object", "properties": J{"l": J{"type": "array", "items": ref("A")}, "y": str}}})
		add("nullable-self", false, J{"t": ref("T")}, J{"T": J{"type": A{"object", "null"}, "properties": J{"v": in, "next": ref("T")}}})
	}
	// the same graphs across files
	f1 := J{"type": "object", "properties": J{"v": in, "other": J{"$ref": "o.json"}}}
	f2 := J{"type": "object", "properties": J{"w": str, "back": J{"$ref": "s.json"}}}
	out = append(out, SCase{ID: "C10/B/two-files-cycle", Schema: f1, Cfg: baseCfg(), Extra: []genlab.File{{Path: "o.json", Content: space.Text(f2)}}, Axes: map[string]string{"pos": "recursion", "leaf": "two-files-cycle", "unsat": "false"}})
	return out
}

// c10LoaderState runs the same-basename universe through all histories (part C); the invariants are C20's.
// c10CrossFileMemberPackages (part F): the documents of part E generated into one package and into two packages. Which package a document
// is mapped to does not change what its references mean: the two-package run must succeed whenever the one-package run does, and the type
// of x.other must carry the property of lib.json's Other ("o"), never that of main.json's own definition of the same name ("mine").
func c10CrossFileMemberPackages(ctx *Ctx) {
	type variant struct {
		comp     string
		ownOther bool
		two      bool
	}
	var vs []variant
	var jobs []genlab.Job
	for _, comp := range []string{"allOf", "anyOf"} {
		for _, ownOther := range []bool{false, true} {
			for _, two := range []bool{false, true} {
				lib := J{"$id": "https://example.com/lib", "type": "object", "properties": J{"z": J{"type": "string"}},
					"$defs": J{"Thing": J{"type": "object", "properties": J{"other": J{"$ref": "#/$defs/Other"}, "t": J{"type": "integer"}}},
						"Other": J{"type": "object", "properties": J{"o": J{"type": "string", "minLength": 2}}, "required": A{"o"}}}}
				main := J{"$id": "https://example.com/main", "type": "object", "properties": J{"k": J{"type": "string"},
					"x": J{comp: A{J{"$ref": "lib.json#/$defs/Thing"}, J{"type": "object", "properties": J{"extra": J{"type": "string"}}}}}}}
				if ownOther {
					main["$defs"] = J{"Other": J{"type": "object", "properties": J{"mine": J{"type": "integer"}}}}
					main["properties"].(J)["mo"] = J{"$ref": "#/$defs/Other"}
				}
				cfg := genlab.Cfg{Package: "example.com/m/p", ResolveExt: []string{".json"}}
				if two {
					cfg.Mappings = []genlab.Mapping{{ID: "https://example.com/main", Package: "example.com/m/pa", Output: "pa/a.go"}, {ID: "https://example.com/lib", Package: "example.com/m/pb", Output: "pb/b.go"}}
				}
				gc := genlab.Case{ID: fmt.Sprintf("C10/F/cross-file-member/%s/own=%v/two-packages=%v", comp, ownOther, two),
					Files: []genlab.File{{Path: "main.json", Content: space.Text(main)}, {Path: "lib.json", Content: space.Text(lib)}}, Args: []string{"main.json"}, Cfg: cfg}
				jobs = append(jobs, genlab.Job{Op: "gen", Case: &gc, KeepOutputs: true})
				vs = append(vs, variant{comp, ownOther, two})
			}
		}
	}
	resps, err := ctx.Pool.RunAll(jobs)
	if err != nil {
		harnessFail("pool: %v", err)
	}
	for i, r := range resps {
		v := vs[i]
		ctx.Run.Eval("cross-file-member-packages|"+jobs[i].Case.ID, v.two)
		replay := map[string]any{"kind": "gen", "files": jobs[i].Case.Files, "args": jobs[i].Case.Args, "cfg": jobs[i].Case.Cfg}
		failed := r.Res.Err != "" || r.Res.Panic != "" || r.Crash != "" || r.Hang
		all := ""
		for _, o := range r.Res.Outputs {
			all += o
		}
		wrong := !failed && (!strings.Contains(all, `json:"o"`) && !strings.Contains(all, `json:"o,`))
		switch {
		case !v.two && (failed || wrong):
			ctx.Run.Violation("cross-file-member:one-package", fmt.Sprintf("%s: %s", jobs[i].Case.ID, firstLine(r.Res.Err+r.Res.Panic+r.Crash)), replay)
		case v.two && (failed || wrong):
			what := "the run fails: " + firstLine(r.Res.Err+r.Res.Panic+r.Crash)
			if wrong {
				what = "no emitted type carries lib.json's property o: x.other is bound to another definition"
			}
			if ctx.Run.Listed("CROSS_FILE_MEMBER_LOCAL_REFS_IN_REFERRER") && (wrong || strings.Contains(r.Res.Err, "definition does not exist in schema")) {
				ctx.Run.Known("CROSS_FILE_MEMBER_LOCAL_REFS_IN_REFERRER", jobs[i].Case.ID+": "+what, replay)
			} else {
				ctx.Run.Violation("cross-file-member:two-packages", fmt.Sprintf("%s: the same documents generate into one package, but mapped to two packages %s", jobs[i].Case.ID, what), replay)
			}
		}
	}
}

func c10LoaderState(ctx *Ctx, u c20Universe, mp c20Mapping) {
	cfg := mp.cfg(u.ids)
	var jobs []genlab.Job
	var hs [][]int
	for _, pm := range permutations4() {
		for k := 1; k <= 4; k++ {
			h := pm[:k]
			var args []string
			for _, i := range h {
				args = append(args, u.files[i].Path)
			}
			gc := genlab.Case{ID: "C10/C/" + fmt.Sprint(h), Files: u.files, Args: args, Cfg: cfg}
			jobs = append(jobs, genlab.Job{Op: "gen", Case: &gc, KeepOutputs: true})
			hs = append(hs, h)
		}
	}
	resps, err := ctx.Pool.RunAll(jobs)
	if err != nil {
		harnessFail("pool: %v", err)
	}
	for i, r := range resps {
		ctx.Run.Eval("loader|"+fmt.Sprint(hs[i]), true)
		ctx.Run.Count("loader_state_histories", 1)
		if r.Res.Err != "" || r.Res.Panic != "" || r.Crash != "" {
			continue
		}
		// whenever y/mainy.json (index 2) was processed, q/z.go must declare fromY's field and never fromX's
		has := func(idx int) bool {
			for _, j := range hs[i] {
				if j == idx {
					return true
				}
			}
			return false
		}
		q, p := r.Res.Outputs["q/z.go"], r.Res.Outputs["p/x.go"]
		replay := map[string]any{"kind": "gen", "files": u.files, "args": jobs[i].Case.Args, "cfg": cfg}
		if has(2) && (!strings.Contains(q, "FromY") || strings.Contains(q, "FromX") || strings.Contains(q, `"example.com/m/p"`)) {
			ctx.Run.Violation("relative-ref-wrong-base", fmt.Sprintf("C10/C: history %v: y/mainy.json's ./common.json did not resolve to y/common.json", hs[i]), replay)
		}
		if has(0) && (!strings.Contains(p, "FromX") || strings.Contains(p, "FromY") || strings.Contains(p, `"example.com/m/q"`)) {
			ctx.Run.Violation("relative-ref-wrong-base", fmt.Sprintf("C10/C: history %v: x/mainx.json's ./common.json did not resolve to x/common.json", hs[i]), replay)
		}
	}
	_ = jsonv.Text
}

// c10SameRefText (part D): every document of the universe has its own definition Common and refers to it by the same text
// "#/$defs/Common" (as allOf member, anyOf member, plain property). A reference resolves relative to the document it occurs in,
// so after any history of documents processed by one generator the declarations must be the union of what each document
// yields when processed alone, up to the renaming the generator applies to colliding names (oracle shared with C20).
func c10SameRefText(ctx *Ctx, u c20Universe) {
	cfg := genlab.Cfg{Package: "example.com/m/dflt", ResolveExt: []string{".json"}}
	var hs [][]int
	for i := 0; i < 4; i++ {
		hs = append(hs, []int{i})
	}
	for i := 0; i < 4; i++ {
		for j := 0; j < 4; j++ {
			if i != j {
				hs = append(hs, []int{i, j})
			}
		}
	}
	if ctx.Level >= 1 {
		for _, pm := range permutations4() {
			hs = append(hs, pm[:3], pm)
		}
	}
	var jobs []genlab.Job
	seen := map[string]bool{}
	var uniq [][]int
	for _, h := range hs {
		if seen[fmt.Sprint(h)] {
			continue
		}
		seen[fmt.Sprint(h)] = true
		uniq = append(uniq, h)
		var args []string
		for _, i := range h {
			args = append(args, u.files[i].Path)
		}
		gc := genlab.Case{ID: "C10/D/" + u.name + fmt.Sprint(h), Files: u.files, Args: args, Cfg: cfg}
		jobs = append(jobs, genlab.Job{Op: "gen", Case: &gc, KeepOutputs: true})
	}
	resps, err := ctx.Pool.RunAll(jobs)
	if err != nil {
		harnessFail("pool: %v", err)
	}
	obs := map[string]obsState{}
	for i, r := range resps {
		st, _ := observe(r)
		obs[fmt.Sprint(uniq[i])] = st
	}
	for i, h := range uniq {
		ctx.Run.Eval("same-ref-text|"+u.name+fmt.Sprint(h), len(h) > 1)
		ctx.Run.Count("same_ref_text_histories", 1)
		if len(h) < 2 {
			continue
		}
		st := obs[fmt.Sprint(h)]
		replay := map[string]any{"kind": "gen", "files": u.files, "args": jobs[i].Case.Args, "cfg": cfg}
		alone := true
		for _, j := range h {
			if obs[fmt.Sprint([]int{j})].err != "" {
				alone = false
			}
		}
		if !alone {
			continue
		}
		if st.err != "" {
			ctx.Run.Violation("same-ref-text:history-dependent-error", fmt.Sprintf("C10/D/%s: history %v fails (%s) although each document is accepted alone", u.name, h, st.err), replay)
			continue
		}
		if msg := c20ComposeRenamed(h, obs, st); msg != "" {
			ctx.Run.Violation("same-ref-text:not-document-relative", fmt.Sprintf("C10/D/%s: history %v: \"#/$defs/Common\" does not denote each document's own definition: the declarations are not the union of the single-document runs up to renaming: %s", u.name, h, msg), replay)
		}
	}
}

func lastLine(s string) string {
	s = strings.TrimSpace(s)
	if i := strings.LastIndexByte(s, '\n'); i >= 0 {
		s = s[i+1:]
	}
	return trunc(s, 200)
}

// c10SameNamePairs: the one-keyword pairs without the pair that differs inside an anyOf list (folded together: KF-C14-4, C14's subject).
func c10SameNamePairs() []SCase {
	var out []SCase
	for _, c := range sameNamePairs("C10") {
		if c.Axes["leaf"] != "anyOf-branches" {
			out = append(out, c)
		}
	}
	return out
}

package props

import (
	"bytes"
	"fmt"
	"go/ast"
	"go/parser"
	"go/printer"
	"go/scanner"
	"go/token"
	"os"
	"path/filepath"
	"reflect"
	"regexp"
	"sort"
	"strings"
	"time"

	"verif/internal/genlab"
	"verif/internal/space"
	"verif/internal/ws"
)

func init() {
	register("C16", "exploration", c16)
	ruleText["C16"] = "schemas (leaf x nullability x required x default at property / nested / definition / anyOf positions, the spelling bases, titled schemas) x base option sets x each single-option change; relations checked on the ASTs / token streams of the two outputs of the real generator: " +
		"--only-models => same type and const declarations (printed) and no func / method / var; --tags T => token-identical after blanking struct tags and every field's tags are exactly T x the base json value; " +
		"--capitalization / --struct-name-from-title / --schema-root-type => declarations equal up to one consistent (bijective) renaming of identifiers, also applied inside message literals; without --extra-imports => the --extra-imports output minus UnmarshalYAML / MarshalYAML methods and the yaml import is token-identical; " +
		"plus CLI-vs-library conformance: for every flag the bytes written by the real binary equal the bytes of the in-process generator with the corresponding Config; non-trivial = a pair whose outputs differ at all; distinct = distinct (base output, variant output) pair"
}

type decl struct {
	kind string // type const var func import
	name string
	text string
}

func parseDecls(src string) ([]decl, error) {
	fset := token.NewFileSet()
	f, err := parser.ParseFile(fset, "g.go", src, parser.SkipObjectResolution)
	if err != nil {
		return nil, err
	}
	pr := func(n any) string {
		var b bytes.Buffer
		printer.Fprint(&b, fset, n)
		return b.String()
	}
	var out []decl
	for _, d := range f.Decls {
		switch x := d.(type) {
		case *ast.FuncDecl:
			name := x.Name.Name
			if x.Recv != nil && len(x.Recv.List) == 1 {
				name = strings.TrimPrefix(pr(x.Recv.List[0].Type), "*") + "." + name
			}
			x.Doc = nil
			out = append(out, decl{"func", name, pr(x)})
		case *ast.GenDecl:
			x.Doc = nil
			for _, sp := range x.Specs {
				switch s := sp.(type) {
				case *ast.TypeSpec:
					s.Doc, s.Comment = nil, nil
					stripFieldComments(s.Type)
					out = append(out, decl{"type", s.Name.Name, pr(s)})
				case *ast.ValueSpec:
					s.Doc, s.Comment = nil, nil
					k := "var"
					if x.Tok == token.CONST {
						k = "const"
					}
					for _, n := range s.Names {
						out = append(out, decl{k, n.Name, pr(s)})
					}
				case *ast.ImportSpec:
					out = append(out, decl{"import", s.Path.Value, pr(s)})
				}
			}
		}
	}
	return out, nil
}

func stripFieldComments(e ast.Expr) {
	ast.Inspect(e, func(n ast.Node) bool {
		if f, ok := n.(*ast.Field); ok {
			f.Doc, f.Comment = nil, nil
		}
		return true
	})
}

func declSet(ds []decl, kind string) map[string]string {
	m := map[string]string{}
	for _, d := range ds {
		if d.kind == kind {
			m[d.name] = d.text
		}
	}
	return m
}

type tok struct {
	t   token.Token
	lit string
}

var reTag = regexp.MustCompile("^`(\\w+:\"[^\"]*\" ?)+`$")

// tokens scans src; comments dropped; struct tags optionally blanked.
func tokens(src string, blankTags bool) []tok {
	var s scanner.Scanner
	fset := token.NewFileSet()
	file := fset.AddFile("g.go", fset.Base(), len(src))
	s.Init(file, []byte(src), nil, 0)
	var out []tok
	for {
		_, t, lit := s.Scan()
		if t == token.EOF {
			break
		}
		if t == token.SEMICOLON && lit == "\n" {
			out = append(out, tok{t, ";"})
			continue
		}
		if blankTags && t == token.STRING && reTag.MatchString(lit) {
			lit = "`TAG`"
		}
		out = append(out, tok{t, lit})
	}
	return out
}

func tokensEqual(a, b []tok) string {
	for i := 0; i < len(a) || i < len(b); i++ {
		var x, y tok
		if i < len(a) {
			x = a[i]
		}
		if i < len(b) {
			y = b[i]
		}
		if x != y {
			return fmt.Sprintf("token %d: %s %q vs %s %q", i, x.t, x.lit, y.t, y.lit)
		}
	}
	return ""
}

// fieldTags returns struct "Type.Field" -> tag literal (unquoted).
func fieldTags(src string) map[string]string {
	fset := token.NewFileSet()
	f, err := parser.ParseFile(fset, "g.go", src, parser.SkipObjectResolution)
	if err != nil {
		return nil
	}
	out := map[string]string{}
	for _, d := range f.Decls {
		gd, ok := d.(*ast.GenDecl)
		if !ok {
			continue
		}
		for _, sp := range gd.Specs {
			ts, ok := sp.(*ast.TypeSpec)
			if !ok {
				continue
			}
			ast.Inspect(ts.Type, func(n ast.Node) bool {
				if fl, ok := n.(*ast.Field); ok && len(fl.Names) == 1 {
					tag := ""
					if fl.Tag != nil {
						tag = strings.Trim(fl.Tag.Value, "`")
					}
					out[ts.Name.Name+"."+fl.Names[0].Name] = tag
				}
				return true
			})
		}
	}
	return out
}

type c16Schema struct {
	id     string
	schema J
	extra  []genlab.File // sibling files referenced by the schema
}

// files returns the input files of the schema (main file first).
func (s c16Schema) files() []genlab.File {
	return append([]genlab.File{{Path: "s.json", Content: space.Text(s.schema)}}, s.extra...)
}

// c16FileRefs: titled documents that refer to whole sibling documents (with and without an explicit root type, titled and
// untitled), to a definition of a sibling document, from a property, an array item and a definition. The naming options
// must act on the schema they name, also when it is reached through a reference.
func c16FileRefs() []c16Schema {
	str := J{"type": "string"}
	other := func(typed, titled bool) J {
		o := J{"$id": "https://example.com/other", "properties": J{"name": str, "homeUrl": J{"type": "string", "minLength": 1}}, "required": A{"name"},
			"$defs": J{"part_id": J{"type": "object", "title": "part id holder", "properties": J{"id": J{"type": "integer"}}}}}
		if typed {
			o["type"] = "object"
		}
		if titled {
			o["title"] = "customer url Record"
		}
		return o
	}
	var out []c16Schema
	for _, typed := range []bool{false, true} {
		for _, titled := range []bool{true, false} {
			ofile := []genlab.File{{Path: "other.json", Content: space.Text(other(typed, titled))}}
			name := fmt.Sprintf("typed=%v/titled=%v", typed, titled)
			mk := func(kind string, props J, defs J) {
				s := J{"$id": "https://example.com/schema", "title": "purchase Order", "type": "object", "properties": props, "required": A{"id"}}
				if defs != nil {
					s["$defs"] = defs
				}
				out = append(out, c16Schema{"fileref/" + kind + "/" + name, s, ofile})
			}
			mk("whole/prop", J{"id": str, "customer": J{"$ref": "other.json"}}, nil)
			mk("whole/item", J{"id": str, "customers": J{"type": "array", "items": J{"$ref": "other.json"}}}, nil)
			mk("whole/from-def", J{"id": str, "line": J{"$ref": "#/$defs/line"}}, J{"line": J{"type": "object", "title": "order line", "properties": J{"buyer": J{"$ref": "other.json"}}}})
			mk("whole/two-referrers", J{"id": str, "buyer": J{"$ref": "other.json"}, "seller": J{"$ref": "other.json"}}, nil)
			mk("fragment/prop", J{"id": str, "part": J{"$ref": "other.json#/$defs/part_id"}}, nil)
		}
	}
	return out
}

func c16Schemas(level int) []c16Schema {
	var out []c16Schema
	for _, sc := range leafFamily(level) {
		p := sc.Axes["pos"]
		if !(p == "prop" || p == "nested" || p == "def" || p == "anyof" || (level >= 1 && (p == "item" || p == "mapval" || p == "allof"))) {
			continue
		}
		if level == 0 && sc.Axes["nullable"] == "true" && sc.Axes["required"] == "true" {
			continue
		}
		s := space.Clone(sc.Schema)
		s["$id"] = "https://example.com/schema"
		s["title"] = "the url id Title"
		out = append(out, c16Schema{sc.ID, s, nil})
	}
	for _, b := range c13Bases(0) {
		s := space.Clone(b.Schema)
		s["$id"] = "https://example.com/schema"
		if _, ok := s["title"]; !ok {
			s["title"] = "an id url holder"
		}
		out = append(out, c16Schema{b.ID, s, nil})
	}
	out = append(out, c16Schema{"caps-names", J{"$id": "https://example.com/schema", "title": "Api Url list", "type": "object",
		"properties": J{"id": J{"type": "string"}, "user_id": J{"type": "integer"}, "homeUrl": J{"type": "string", "minLength": 1}, "url": J{"type": "object", "title": "url holder", "properties": J{"id": J{"type": "string"}}, "required": A{"id"}},
			"ids": J{"type": "array", "items": J{"type": "string", "enum": A{"id", "url-x"}}}},
		"required": A{"id"}}, nil})
	branches := A{J{"type": "object", "properties": J{"a": J{"type": "string"}}, "required": A{"a"}}, J{"type": "object", "properties": J{"b": J{"type": "integer"}}, "required": A{"b"}}}
	out = append(out, c16Schema{"root-anyof", J{"$id": "https://example.com/schema", "title": "either Way", "type": "object", "anyOf": branches}, nil})
	out = append(out, c16Schema{"root-allof", J{"$id": "https://example.com/schema", "title": "both Ways", "type": "object", "allOf": branches}, nil})
	out = append(out, c16FileRefs()...)
	return out
}

type c16Variant struct {
	name       string
	mod        func(*genlab.Cfg)
	rel        string
	functional bool // the renaming need not be injective (see relRename)
}

func c16Variants() []c16Variant {
	return []c16Variant{
		{"only-models", func(c *genlab.Cfg) { c.OnlyModels = true }, "only-models", false},
		{"tags=json", func(c *genlab.Cfg) { c.Tags = []string{"json"} }, "tags", false},
		{"tags=yaml,custom", func(c *genlab.Cfg) { c.Tags = []string{"yaml", "custom"} }, "tags", false},
		{"caps=ID,URL", func(c *genlab.Cfg) { c.Caps = []string{"ID", "URL"} }, "rename", false},
		{"title", func(c *genlab.Cfg) { c.StructNameFromTitle = true }, "rename", false},
		{"root-type", func(c *genlab.Cfg) {
			c.Mappings = []genlab.Mapping{{ID: "https://example.com/schema", Package: "s", Output: "-", Root: "RenamedRoot"}}
		}, "rename", false},
		{"root-type-lower-case", func(c *genlab.Cfg) {
			c.Mappings = []genlab.Mapping{{ID: "https://example.com/schema", Package: "s", Output: "-", Root: "renamedRoot"}}
		}, "rename", true},
		{"no-extra-imports", func(c *genlab.Cfg) { c.ExtraImports = false }, "extra-imports", false},
	}
}

func c16(ctx *Ctx) {
	schemas := c16Schemas(ctx.Level)
	bases := []OptSet{{"default+extra", func(c *genlab.Cfg) { c.ExtraImports = true }},
		{"sized+caps+extra", func(c *genlab.Cfg) { c.ExtraImports = true; c.MinSizedInts = true; c.Caps = []string{"Api"} }}}
	if ctx.Level >= 1 {
		bases = append(bases, OptSet{"sized+extra", func(c *genlab.Cfg) { c.ExtraImports = true; c.MinSizedInts = true }},
			OptSet{"tags2+extra", func(c *genlab.Cfg) { c.ExtraImports = true; c.Tags = []string{"json", "yaml"} }})
	}
	variants := c16Variants()
	type jobKey struct {
		s, b, v int // v = -1 base
	}
	var jobs []genlab.Job
	var keys []jobKey
	for si, s := range schemas {
		for bi, b := range bases {
			for vi := -1; vi < len(variants); vi++ {
				cfg := baseCfg()
				b.Mod(&cfg)
				if vi >= 0 {
					variants[vi].mod(&cfg)
				}
				gc := genlab.Case{ID: fmt.Sprintf("C16/%s/%s", s.id, b.Name), Files: s.files(), Args: []string{"s.json"}, Cfg: cfg}
				jobs = append(jobs, genlab.Job{Op: "gen", Case: &gc, KeepOutputs: true})
				keys = append(keys, jobKey{si, bi, vi})
			}
		}
	}
	res := map[jobKey]*genlab.Resp{}
	cfgs := map[jobKey]genlab.Case{}
	err := ctx.Pool.Run(jobs, func(j *genlab.Job, r *genlab.Resp) {
		res[keys[j.Seq]] = r
		cfgs[keys[j.Seq]] = *j.Case
	})
	if err != nil {
		harnessFail("pool: %v", err)
	}
	src := func(r *genlab.Resp) (string, bool) {
		if r == nil || r.Crash != "" || r.Hang || r.Res.Panic != "" || r.Res.Err != "" || len(r.Res.Outputs) != 1 {
			return "", false
		}
		for _, v := range r.Res.Outputs {
			return v, true
		}
		return "", false
	}
	nSample := 0
	for si, s := range schemas {
		for bi, b := range bases {
			base, ok := src(res[jobKey{si, bi, -1}])
			for vi, v := range variants {
				k := jobKey{si, bi, vi}
				vs, vok := src(res[k])
				id := fmt.Sprintf("C16/%s/base=%s/%s", s.id, b.Name, v.name)
				replay := map[string]any{"kind": "option-pair", "schema": s.schema, "files": s.files(), "base_cfg": cfgs[jobKey{si, bi, -1}].Cfg, "variant_cfg": cfgs[k].Cfg}
				if ok != vok {
					ctx.Run.Eval(id, true)
					ctx.Run.Violation("success-differs:"+v.name, fmt.Sprintf("%s: generation succeeds with one option set and fails with the other (base ok=%v, variant ok=%v)", id, ok, vok), replay)
					continue
				}
				if !ok {
					ctx.Run.Eval(id, false)
					ctx.Run.Count("pairs_not_generated", 1)
					continue
				}
				ctx.Run.Eval(genlab.Hash(base)+"|"+genlab.Hash(vs), base != vs)
				if nSample < 3 && base != vs {
					nSample++
					ctx.Run.Sample(map[string]any{"pair": id, "schema": s.schema, "base_bytes": len(base), "variant_bytes": len(vs)})
				}
				if _, perr := parseDecls(base); perr != nil {
					ctx.Run.Count("pairs_not_parsable(C01)", 1)
					continue
				}
				if _, perr := parseDecls(vs); perr != nil {
					ctx.Run.Count("pairs_not_parsable(C01)", 1)
					continue
				}
				var msg string
				switch v.rel {
				case "only-models":
					msg = relOnlyModels(base, vs)
				case "tags":
					msg = relTags(base, vs, cfgs[k].Cfg.Tags)
				case "rename":
					msg = relRename(base, vs, !v.functional)
					if msg == "" && v.functional {
						// a lower-case type name makes the helper variable and the helper type one identifier (kept apart by scoping):
						// the renamed output must then at least be valid Go
						for name, d := range res[k].Diags {
							if !d.OK() {
								msg = "the renamed output " + name + " is not valid Go: " + d.Summary()
							}
						}
					}
				case "extra-imports":
					msg = relExtraImports(base, vs)
				}
				ctx.Run.Count("relation:"+v.rel, 1)
				if msg != "" {
					replay["base_output"], replay["variant_output"] = base, vs
					ctx.Run.Violation("option:"+v.name+":"+relSig(msg), fmt.Sprintf("%s: %s", id, msg), replay)
				}
			}
		}
	}
	c16CLI(ctx, schemas)
	ctx.Run.Assume("declaration order is not compared for renaming options (declarations are emitted sorted by name)", "comments are not compared for renaming options",
		"trusted: go/parser, go/printer, go/scanner")
}

func relSig(msg string) string {
	if i := strings.IndexAny(msg, ":("); i > 0 {
		msg = msg[:i]
	}
	return msg
}

func relOnlyModels(base, om string) string {
	bd, _ := parseDecls(base)
	od, _ := parseDecls(om)
	for _, d := range od {
		if d.kind == "func" || d.kind == "var" {
			return fmt.Sprintf("only-models output declares a %s (%s)", d.kind, d.name)
		}
	}
	for _, kind := range []string{"type", "const"} {
		a, b := declSet(bd, kind), declSet(od, kind)
		for n, t := range a {
			if bt, ok := b[n]; !ok {
				return fmt.Sprintf("only-models output lacks %s %s", kind, n)
			} else if bt != t {
				return fmt.Sprintf("only-models output declares %s %s differently: %q vs %q", kind, n, trunc(t, 200), trunc(bt, 200))
			}
		}
		for n := range b {
			if _, ok := a[n]; !ok {
				return fmt.Sprintf("only-models output has an extra %s %s", kind, n)
			}
		}
	}
	return ""
}

func relTags(base, vs string, tags []string) string {
	if d := tokensEqual(tokens(base, true), tokens(vs, true)); d != "" {
		return "tags option changes more than struct tags: " + d
	}
	bt, vt := fieldTags(base), fieldTags(vs)
	for f, b := range bt {
		v := vt[f]
		bst := reflect.StructTag(b)
		jv, hasJSON := bst.Lookup("json")
		if !hasJSON {
			if v != b {
				return fmt.Sprintf("tags: field %s without json tag changed from %q to %q", f, b, v)
			}
			continue
		}
		var want []string
		for _, t := range tags {
			want = append(want, fmt.Sprintf(`%s:"%s"`, t, jv))
		}
		if v != strings.Join(want, " ") {
			return fmt.Sprintf("tags: field %s has tags %q, want %q", f, v, strings.Join(want, " "))
		}
	}
	return ""
}

var reYAMLMethod = regexp.MustCompile(`^\w+\.(UnmarshalYAML|MarshalYAML)$`)

func relExtraImports(withExtra, without string) string {
	// remove YAML methods and the yaml import from the --extra-imports output, then compare declaration by declaration
	wd, _ := parseDecls(withExtra)
	nd, _ := parseDecls(without)
	var filtered []decl
	for _, d := range wd {
		if d.kind == "func" && reYAMLMethod.MatchString(d.name) {
			continue
		}
		if d.kind == "import" && strings.Contains(d.name, "gopkg.in/yaml") {
			continue
		}
		filtered = append(filtered, d)
	}
	for _, d := range nd {
		if d.kind == "func" && reYAMLMethod.MatchString(d.name) {
			return "output without --extra-imports has YAML method " + d.name
		}
		if d.kind == "import" && strings.Contains(d.name, "yaml") {
			return "output without --extra-imports imports " + d.name
		}
	}
	if strings.Contains(without, "yaml.") {
		return "output without --extra-imports refers to the yaml package"
	}
	if len(filtered) != len(nd) {
		return fmt.Sprintf("without --extra-imports: %d declarations, expected %d (the --extra-imports output minus YAML code)", len(nd), len(filtered))
	}
	for i := range filtered {
		if filtered[i] != nd[i] {
			return fmt.Sprintf("without --extra-imports: declaration %s %s differs: %q vs %q", nd[i].kind, nd[i].name, trunc(filtered[i].text, 160), trunc(nd[i].text, 160))
		}
	}
	return ""
}

// relRename: the two outputs are equal up to one consistent bijective renaming of identifiers.
// relRename: vs is base with identifiers renamed consistently. injective = the renaming must be a bijection per namespace; otherwise
// it only has to be a function (two base identifiers may get one name where Go's scoping keeps them apart - the caller then also
// requires that the renamed output type-checks).
func relRename(base, vs string, injective bool) string {
	bd, _ := parseDecls(base)
	vd, _ := parseDecls(vs)
	if len(bd) != len(vd) {
		return fmt.Sprintf("renaming option changes the number of declarations: %d vs %d", len(bd), len(vd))
	}
	// group declarations by an identifier-blind skeleton
	type ent struct {
		d    decl
		toks []tok
	}
	group := func(ds []decl) map[string][]ent {
		m := map[string][]ent{}
		for _, d := range ds {
			ts := tokens(d.text, false)
			var sk strings.Builder
			for _, t := range ts {
				switch t.t {
				case token.IDENT:
					if isUniverse(t.lit) {
						sk.WriteString(t.lit)
					} else {
						sk.WriteString("ID")
					}
				case token.STRING:
					sk.WriteString("STR")
				default:
					sk.WriteString(t.t.String() + t.lit)
				}
				sk.WriteByte(' ')
			}
			k := d.kind + "|" + sk.String()
			m[k] = append(m[k], ent{d, ts})
		}
		return m
	}
	bg, vg := group(bd), group(vd)
	if len(bg) != len(vg) {
		return "renaming option changes the shape of declarations"
	}
	fwd, bwd := map[string]string{}, map[string]string{}
	bind := func(a, b string) bool {
		if x, ok := fwd[a]; ok && x != b {
			return false
		}
		if x, ok := bwd[b]; ok && x != a && injective {
			return false
		}
		fwd[a], bwd[b] = b, a
		return true
	}
	keys := make([]string, 0, len(bg))
	for k := range bg {
		keys = append(keys, k)
	}
	sort.Strings(keys)
	type strPair struct{ a, b string }
	var strs []strPair
	// first unambiguous groups, then ambiguous ones (matched greedily under the bijection found so far)
	for pass := 0; pass < 2; pass++ {
		for _, k := range keys {
			be, ve := bg[k], vg[k]
			if len(be) != len(ve) {
				return fmt.Sprintf("renaming option changes the shape of declarations (%d vs %d of one shape)", len(be), len(ve))
			}
			if (len(be) == 1) != (pass == 0) {
				continue
			}
			used := make([]bool, len(ve))
			for _, b := range be {
				matched := false
				for j, v := range ve {
					if used[j] {
						continue
					}
					// trial binding
					saveF, saveB := cloneMap(fwd), cloneMap(bwd)
					ok := true
					var ls []strPair
					br, vr := identRoles(b.d), identRoles(v.d)
					ri := 0
					for i := range b.toks {
						x, y := b.toks[i], v.toks[i]
						switch {
						case x.t == token.IDENT && !isUniverse(x.lit):
							role := "t:"
							if br != nil && vr != nil && ri < len(br) && ri < len(vr) && br[ri].name == x.lit && vr[ri].name == y.lit && br[ri].role == vr[ri].role {
								role = br[ri].role
							}
							if !bind(role+x.lit, role+y.lit) {
								ok = false
							}
						case x.t == token.STRING:
							ls = append(ls, strPair{x.lit, y.lit})
						case x != y:
							ok = false
						}
						if x.t == token.IDENT {
							ri++
						}
						if !ok {
							break
						}
					}
					if ok {
						used[j] = true
						matched = true
						strs = append(strs, ls...)
						break
					}
					fwd, bwd = saveF, saveB
				}
				if !matched {
					return fmt.Sprintf("no consistent renaming of identifiers maps declaration %s %s onto a declaration of the other output", b.d.kind, b.d.name)
				}
			}
		}
	}
	// string literals (tags, messages) must be equal after applying the renaming to whole words
	for _, p := range strs {
		if p.a == p.b {
			continue
		}
		words := map[string]string{}
		for k, v := range fwd {
			// message literals name types and fields: apply both namespaces (type names win)
			name, to := k[2:], v[2:]
			if _, dup := words[name]; !dup || strings.HasPrefix(k, "t:") {
				words[name] = to
			}
		}
		if renameWords(p.a, words) != p.b {
			return fmt.Sprintf("string literal changes beyond the renaming: %s vs %s", trunc(p.a, 120), trunc(p.b, 120))
		}
	}
	return ""
}

var reWord = regexp.MustCompile(`[\pL_][\pL\pN_]*`)

func renameWords(s string, m map[string]string) string {
	return reWord.ReplaceAllStringFunc(s, func(w string) string {
		if r, ok := m[w]; ok {
			return r
		}
		return w
	})
}

func cloneMap(m map[string]string) map[string]string {
	o := make(map[string]string, len(m))
	for k, v := range m {
		o[k] = v
	}
	return o
}

var universe = map[string]bool{"string": true, "int": true, "int8": true, "int16": true, "int32": true, "int64": true, "uint8": true, "uint16": true, "uint32": true, "uint64": true,
	"float64": true, "bool": true, "error": true, "nil": true, "true": true, "false": true, "byte": true, "len": true, "any": true, "interface": true, "struct": true,
	"json": true, "yaml": true, "fmt": true, "reflect": true, "errors": true, "regexp": true, "math": true, "time": true, "netip": true, "types": true, "mapstructure": true, "strings": true,
	"Unmarshal": true, "Marshal": true, "Decode": true, "Errorf": true, "DeepEqual": true, "MatchString": true, "Join": true, "Node": true, "UnmarshalJSON": true, "UnmarshalYAML": true,
	"MarshalJSON": true, "MarshalYAML": true, "Time": true, "Addr": true, "SerializableDate": true, "SerializableTime": true, "Abs": true, "Mod": true, "Sprintf": true, "TypeOf": true,
	"NumField": true, "Field": true, "Name": true, "Tag": true, "Get": true, "Split": true, "Value": true}

func isUniverse(s string) bool { return universe[s] }

// c16CLI: the real binary writes exactly the bytes the library returns for the corresponding Config.
func c16CLI(ctx *Ctx, schemas []c16Schema) {
	bin, err := ws.CLI()
	if err != nil {
		harnessFail("cannot build the CLI: %v", err)
	}
	step := 12
	if ctx.Level >= 1 {
		step = 3
	}
	type flagCase struct {
		name string
		cfg  genlab.Cfg
		raw  []string // the command line as written (default: the long forms of cfg)
	}
	fcs := []flagCase{
		{"defaults", genlab.Cfg{Package: "s"}, nil},
		{"extra-imports", genlab.Cfg{Package: "s", ExtraImports: true}, nil},
		{"only-models", genlab.Cfg{Package: "s", OnlyModels: true}, nil},
		{"min-sized-ints", genlab.Cfg{Package: "s", MinSizedInts: true}, nil},
		{"struct-name-from-title", genlab.Cfg{Package: "s", StructNameFromTitle: true}, nil},
		{"tags", genlab.Cfg{Package: "s", Tags: []string{"json", "custom"}}, nil},
		{"capitalization", genlab.Cfg{Package: "s", Caps: []string{"ID", "URL"}}, nil},
		{"resolve-extension", genlab.Cfg{Package: "s", ResolveExt: []string{".json"}}, nil},
		{"output", genlab.Cfg{Package: "s", Output: "out/dir/gen.go"}, nil},
		{"mappings", genlab.Cfg{Package: "s", Mappings: []genlab.Mapping{{ID: "https://example.com/schema", Package: "example.com/pkg/mapped", Output: "mapped/m.go", Root: "Mapped"}}}, nil},
		{"yaml-extension", genlab.Cfg{Package: "s", YAMLExt: []string{".json"}}, nil},
		// the other spellings the command line documents: one-letter forms, --flag=value, list values joined by commas, a boolean written out
		{"short-forms", genlab.Cfg{Package: "s", Output: "out/x.go", ExtraImports: true, StructNameFromTitle: true}, []string{"-p", "s", "-o", "out/x.go", "-e", "-t"}},
		{"equals-forms", genlab.Cfg{Package: "s", Output: "out/y.go", OnlyModels: true}, []string{"--package=s", "--output=out/y.go", "--only-models=true"}},
		{"comma-lists", genlab.Cfg{Package: "s", Caps: []string{"ID", "URL"}, Tags: []string{"json", "custom"}, ResolveExt: []string{".json", ".yaml"}},
			[]string{"-p", "s", "--capitalization", "ID,URL", "--tags=json,custom", "--resolve-extension", ".json,.yaml"}},
		{"flags-after-the-argument", genlab.Cfg{Package: "s", MinSizedInts: true}, []string{"ARG", "--package", "s", "--min-sized-ints"}},
	}
	var jobs []genlab.Job
	type ck struct{ s, f int }
	var keys []ck
	for si := 0; si < len(schemas); si += step {
		for fi, fc := range fcs {
			gc := genlab.Case{ID: "cli", Files: schemas[si].files(), Args: []string{"s.json"}, Cfg: fc.cfg}
			jobs = append(jobs, genlab.Job{Op: "gen", Case: &gc, KeepOutputs: true})
			keys = append(keys, ck{si, fi})
		}
	}
	lib := map[ck]*genlab.Resp{}
	if err := ctx.Pool.Run(jobs, func(j *genlab.Job, r *genlab.Resp) { lib[keys[j.Seq]] = r }); err != nil {
		harnessFail("pool: %v", err)
	}
	dir := ws.Dir("c16cli")
	for i, k := range keys {
		fc := fcs[k.f]
		s := schemas[k.s]
		d := filepath.Join(dir, fmt.Sprintf("c%05d", i))
		os.MkdirAll(d, 0o755)
		genlab.Materialise(d, s.files())
		args := append(fc.cfg.Flags(), "s.json")
		if fc.raw != nil {
			args = nil
			sawArg := false
			for _, a := range fc.raw {
				if a == "ARG" {
					a, sawArg = "s.json", true
				}
				args = append(args, a)
			}
			if !sawArg {
				args = append(args, "s.json")
			}
		}
		r := genlab.RunCLI(bin, d, args, "", 60*time.Second)
		l := lib[k]
		id := fmt.Sprintf("C16/cli/%s/%s", s.id, fc.name)
		ctx.Run.Eval(id, true)
		ctx.Run.Count("cli_runs_compared_with_library", 1)
		replay := map[string]any{"kind": "cli", "files": s.files(), "args": args, "cfg": fc.cfg}
		libOK := l.Crash == "" && !l.Hang && l.Res.Panic == "" && l.Res.Err == ""
		if (r.Exit == 0) != libOK {
			ctx.Run.Violation("cli-vs-library:status:"+fc.name, fmt.Sprintf("%s: CLI exit %d but library ok=%v (%s)", id, r.Exit, libOK, firstLine(r.Stderr)), replay)
			os.RemoveAll(d)
			continue
		}
		if libOK {
			for name, want := range l.Res.Outputs {
				got := r.Stdout
				if name != "-" {
					got = r.Files[name]
				}
				// library paths are absolute-independent: the schema path does not appear in the output
				if got != want {
					ctx.Run.Violation("cli-vs-library:bytes:"+fc.name, fmt.Sprintf("%s: output %q of the CLI differs from the library's: %s", id, name, firstDiffLine(want, got)), replay)
					break
				}
			}
			extra := 0
			for n := range r.Files {
				if n == "s.json" || n == "other.json" {
					continue
				}
				if _, ok := l.Res.Outputs[n]; !ok {
					extra++
				}
			}
			if extra > 0 {
				ctx.Run.Violation("cli-vs-library:extra-files:"+fc.name, fmt.Sprintf("%s: the CLI wrote %d files the library did not return", id, extra), replay)
			}
		}
		os.RemoveAll(d)
	}
}

type idRole struct {
	name, role string
}

// identRoles lists the identifiers of a declaration in source order with their namespace: "f:" for struct field
// names, selectors and composite-literal keys, "t:" for everything else.
func identRoles(d decl) []idRole {
	prefix := ""
	switch d.kind {
	case "type":
		prefix = "type "
	case "const":
		prefix = "const "
	case "var":
		prefix = "var "
	case "import":
		return nil
	}
	fset := token.NewFileSet()
	f, err := parser.ParseFile(fset, "d.go", "package p\n"+prefix+d.text, parser.SkipObjectResolution)
	if err != nil {
		return nil
	}
	fieldIdent := map[*ast.Ident]bool{}
	ast.Inspect(f, func(n ast.Node) bool {
		switch x := n.(type) {
		case *ast.StructType:
			for _, fl := range x.Fields.List {
				for _, nm := range fl.Names {
					fieldIdent[nm] = true
				}
			}
		case *ast.SelectorExpr:
			fieldIdent[x.Sel] = true
		case *ast.KeyValueExpr:
			if id, ok := x.Key.(*ast.Ident); ok {
				fieldIdent[id] = true
			}
		}
		return true
	})
	type pi struct {
		pos  token.Pos
		name string
		role string
	}
	var all []pi
	ast.Inspect(f, func(n ast.Node) bool {
		if id, ok := n.(*ast.Ident); ok && id != f.Name {
			r := "t:"
			if fieldIdent[id] {
				r = "f:"
			}
			all = append(all, pi{id.Pos(), id.Name, r})
		}
		return true
	})
	sort.Slice(all, func(i, j int) bool { return all[i].pos < all[j].pos })
	out := make([]idRole, len(all))
	for i, a := range all {
		out[i] = idRole{a.name, a.role}
	}
	return out
}

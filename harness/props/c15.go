package props

import (
	"fmt"
	"go/ast"
	"go/parser"
	"go/token"
	"math/big"
	"regexp"
	"sort"
	"strings"

	"verif/drv"
	"verif/internal/batch"
	"verif/internal/jsonv"
	"verif/internal/refmodel"
)

func init() {
	register("C15", "exploration", c15)
	ruleText["C15"] = "integer schemas whose minimum / maximum / exclusive bounds (numeric and boolean form, one- and two-sided, all ordered pairs min <= max) are taken from the 8/16/32/64-bit signed and unsigned limits (thorough: and their neighbours +-1) x {required, optional, nullable, definition, array item}; each is generated with and without --min-sized-ints, both are compiled; " +
		"documents = every bound +-1 and every type limit +-1 (int64 range), absent, null; oracle = (i) flag-on and flag-off give the same verdict and both agree with the exact reference model, (ii) AST: the field type is the narrowest signed / unsigned type containing the admitted range, (iii) it compiles; " +
		"non-trivial = differs from base; distinct = (source hash, document)"
}

var c15Devs = []string{"SIZED_INT_ENUM_REJECTS_ALL", "SIZED_BOUNDS_STRIPPED_FROM_SHARED_SCHEMA", "INT_BOUND_TRUNCATED"}

func bi(s string) *big.Int {
	n, _ := new(big.Int).SetString(s, 10)
	return n
}

var c15Limits = []*big.Int{
	bi("-9223372036854775808"), bi("-2147483648"), bi("-32768"), bi("-128"), bi("0"), bi("127"), bi("255"), bi("32767"), bi("65535"),
	bi("2147483647"), bi("4294967295"), bi("9223372036854774784"),
}

type c15Shape struct {
	name string
	s    J
	lo   *big.Int // admitted range (nil = unbounded)
	hi   *big.Int
}

func num64(n *big.Int) any { return jsonNumber(n.String()) }

func c15Shapes(level int) []c15Shape {
	var vals []*big.Int
	seen := map[string]bool{}
	addv := func(n *big.Int) {
		if n.Cmp(bi("-9223372036854775808")) < 0 || n.Cmp(bi("9223372036854775807")) > 0 {
			return
		}
		// only values exactly representable as float64 (the generator parses bounds as float64)
		f, _ := new(big.Float).SetInt(n).Float64()
		back, _ := new(big.Float).SetFloat64(f).Int(nil)
		if back.Cmp(n) != 0 || seen[n.String()] {
			return
		}
		seen[n.String()] = true
		vals = append(vals, n)
	}
	for _, l := range c15Limits {
		addv(l)
		if level >= 1 {
			addv(new(big.Int).Add(l, big.NewInt(1)))
			addv(new(big.Int).Sub(l, big.NewInt(1)))
		}
	}
	if level == 0 {
		// the neighbours of the 8-bit limits and of zero also in the quick tier: "one step outside a type" is where the +-1 of
		// exclusive bounds and the choice of the type interact
		for _, n := range []string{"-129", "-1", "1", "128", "256"} {
			addv(bi(n))
		}
	}
	sort.Slice(vals, func(i, j int) bool { return vals[i].Cmp(vals[j]) < 0 })
	one := big.NewInt(1)
	var out []c15Shape
	add := func(name string, s J, lo, hi *big.Int) {
		s["type"] = "integer"
		out = append(out, c15Shape{name, s, lo, hi})
	}
	inc := func(n *big.Int) *big.Int { return new(big.Int).Add(n, one) }
	dec := func(n *big.Int) *big.Int { return new(big.Int).Sub(n, one) }
	exact := func(n *big.Int) bool {
		f, _ := new(big.Float).SetInt(n).Float64()
		back, _ := new(big.Float).SetFloat64(f).Int(nil)
		return back.Cmp(n) == 0
	}
	realAdd := add
	add = func(name string, s J, lo, hi *big.Int) {
		// the effective bounds of exclusive forms (bound +- 1) must be float64-exact as well
		if (lo != nil && !exact(lo)) || (hi != nil && !exact(hi)) {
			return
		}
		realAdd(name, s, lo, hi)
	}
	for _, v := range vals {
		add("min="+v.String(), J{"minimum": num64(v)}, v, nil)
		add("max="+v.String(), J{"maximum": num64(v)}, nil, v)
		add("exmin="+v.String(), J{"exclusiveMinimum": num64(v)}, inc(v), nil)
		add("exmax="+v.String(), J{"exclusiveMaximum": num64(v)}, nil, dec(v))
		if level >= 1 {
			add("min="+v.String()+",exmin=true", J{"minimum": num64(v), "exclusiveMinimum": true}, inc(v), nil)
			add("max="+v.String()+",exmax=true", J{"maximum": num64(v), "exclusiveMaximum": true}, nil, dec(v))
		}
	}
	for i, a := range vals {
		for _, b := range vals[i:] {
			if a.Cmp(b) == 0 {
				add(fmt.Sprintf("min=max=%s", a), J{"minimum": num64(a), "maximum": num64(b)}, a, b)
				continue
			}
			add(fmt.Sprintf("min=%s,max=%s", a, b), J{"minimum": num64(a), "maximum": num64(b)}, a, b)
			if new(big.Int).Sub(b, a).Cmp(big.NewInt(2)) >= 0 {
				add(fmt.Sprintf("exmin=%s,exmax=%s", a, b), J{"exclusiveMinimum": num64(a), "exclusiveMaximum": num64(b)}, inc(a), dec(b))
				add(fmt.Sprintf("min=%s,max=%s,exmin=true,exmax=true", a, b), J{"minimum": num64(a), "maximum": num64(b), "exclusiveMinimum": true, "exclusiveMaximum": true}, inc(a), dec(b))
				add(fmt.Sprintf("min=%s,exmax=%s", a, b), J{"minimum": num64(a), "exclusiveMaximum": num64(b)}, a, dec(b))
				add(fmt.Sprintf("exmin=%s,max=%s", a, b), J{"exclusiveMinimum": num64(a), "maximum": num64(b)}, inc(a), b)
				if level >= 1 {
					add(fmt.Sprintf("min=%s,max=%s,exmax=true", a, b), J{"minimum": num64(a), "maximum": num64(b), "exclusiveMaximum": true}, a, dec(b))
					add(fmt.Sprintf("min=%s,max=%s,exmin=true", a, b), J{"minimum": num64(a), "maximum": num64(b), "exclusiveMinimum": true}, inc(a), b)
				}
			}
		}
	}
	// bounds that are not integers (the admitted integers are those of the interval; the exact bound never is): inclusive and exclusive,
	// next to a type limit and away from it
	fr := func(name string, s J, lo, hi int64) {
		s["type"] = "integer"
		out = append(out, c15Shape{"fractional/" + name, s, big.NewInt(lo), big.NewInt(hi)})
	}
	fr("min=0,max=254.6", J{"minimum": 0, "maximum": 254.6}, 0, 254)
	fr("min=0,max=255.5", J{"minimum": 0, "maximum": 255.5}, 0, 255)
	fr("min=0.5,max=100", J{"minimum": 0.5, "maximum": 100}, 1, 100)
	fr("min=-127.6,max=126.6", J{"minimum": -127.6, "maximum": 126.6}, -127, 126)
	fr("min=-128.5,max=127.5", J{"minimum": -128.5, "maximum": 127.5}, -128, 127)
	fr("min=0,exmax=256.4", J{"minimum": 0, "exclusiveMaximum": 256.4}, 0, 256)
	fr("exmin=-0.5,max=100", J{"exclusiveMinimum": -0.5, "maximum": 100}, 0, 100)
	fr("exmin=1.5,exmax=7.5", J{"exclusiveMinimum": 1.5, "exclusiveMaximum": 7.5}, 2, 7)
	fr("exmin=-129.5,exmax=127.5", J{"exclusiveMinimum": -129.5, "exclusiveMaximum": 127.5}, -129, 127)
	// a divisor that the chosen type cannot hold (only 0 is a multiple of it inside the bounds)
	dv := func(name string, s J, lo, hi int64) {
		s["type"] = "integer"
		out = append(out, c15Shape{"divisor-beyond-type/" + name, s, big.NewInt(lo), big.NewInt(hi)})
	}
	dv("min=0,max=200,multipleOf=1000", J{"minimum": 0, "maximum": 200, "multipleOf": 1000}, 0, 200)
	dv("min=-100,max=100,multipleOf=128", J{"minimum": -100, "maximum": 100, "multipleOf": 128}, -100, 100)
	return out
}

// c15WantType: the narrowest signed (lo < 0 or absent) or unsigned (lo >= 0) type containing [lo, hi].
func c15WantType(lo, hi *big.Int) string {
	fits := func(n *big.Int, min, max string) bool { return n.Cmp(bi(min)) >= 0 && n.Cmp(bi(max)) <= 0 }
	if lo != nil && lo.Sign() >= 0 {
		if hi == nil {
			return "uint64"
		}
		for _, t := range []struct{ n, max string }{{"uint8", "255"}, {"uint16", "65535"}, {"uint32", "4294967295"}} {
			if hi.Cmp(bi(t.max)) <= 0 {
				return t.n
			}
		}
		return "uint64"
	}
	if lo == nil || hi == nil {
		return "int64"
	}
	for _, t := range []struct{ n, min, max string }{{"int8", "-128", "127"}, {"int16", "-32768", "32767"}, {"int32", "-2147483648", "2147483647"}} {
		if fits(lo, t.min, t.max) && fits(hi, t.min, t.max) {
			return t.n
		}
	}
	return "int64"
}

func c15(ctx *Ctx) {
	shapes := c15Shapes(ctx.Level)
	var cases []SCase
	wantType := map[string]string{}
	shapeOf := map[string]c15Shape{}
	for _, sh := range shapes {
		for _, sized := range []bool{false, true} {
			cfg := baseCfg()
			cfg.MinSizedInts = sized
			l := sh.s
			nl := J{}
			for k, v := range l {
				nl[k] = v
			}
			nl["type"] = A{"integer", "null"}
			root := J{"type": "object",
				"properties": J{"r": l, "o": l, "n": nl, "d": J{"$ref": "#/$defs/D"}},
				"required":   A{"r"}, "$defs": J{"D": l}}
			id := fmt.Sprintf("C15/%s/sized=%v", sh.name, sized)
			wantType[id] = c15WantType(sh.lo, sh.hi)
			shapeOf[id] = sh
			cases = append(cases, SCase{ID: id, Schema: root, Cfg: cfg, Axes: map[string]string{"pos": "props", "leaf": sh.name, "sized": fmt.Sprint(sized)}})
		}
	}
	// verdict of the flag-off twin per (shape, document), to compare the two programs directly
	type key struct{ shape, doc string }
	verdicts := map[key][2]string{}
	explained := map[key]bool{}
	runBehaviour(ctx, behaviour{Name: "sized", Cases: cases, Devs: c15Devs,
		DocGen: func(sc *SCase, m *refmodel.Model) []refmodel.Doc { return c15Docs(shapeOf[sc.ID]) },
		// zero written as -0: encoding/json refuses a minus sign for every unsigned Go type
		KnownMismatch: func(sc *SCase, d *refmodel.Doc, o *drv.Obs) string {
			if d.Class == "num:negative-zero" && sc.Axes["sized"] == "true" && strings.Contains(o.Err, "cannot unmarshal number -0 into Go") {
				return "NEGATIVE_ZERO_REJECTED_BY_UNSIGNED_TYPE"
			}
			return ""
		},
		OnProgram: func(sc *SCase, p *batch.Program) {
			if sc.Axes["sized"] == "true" {
				c15CheckTypes(ctx, sc, p, wantType[sc.ID])
			}
		},
		OnBuildErr: func(sc *SCase, msg string) {
			if strings.HasPrefix(sc.Axes["leaf"], "divisor-beyond-type/") && sc.Axes["sized"] == "true" && ctx.Run.Listed("SIZED_DIVISOR_NOT_REPRESENTABLE") &&
				regexp.MustCompile(`\d+ \(untyped int constant\) overflows u?int\d+`).MatchString(msg) {
				ctx.Run.Known("SIZED_DIVISOR_NOT_REPRESENTABLE", sc.ID+": "+firstLine(msg), map[string]any{"kind": "gen", "files": sc.Case().Files, "cfg": sc.Case().Cfg, "compiler": msg})
				return
			}
			ctx.Run.Violation("compile:"+normCompileMsg(firstLine(msg)), fmt.Sprintf("%s: emitted code does not compile: %s", sc.ID, firstLine(msg)),
				map[string]any{"kind": "gen", "files": sc.Case().Files, "cfg": sc.Case().Cfg, "compiler": msg})
		},
		Extra: func(sc *SCase, m *refmodel.Model, d *refmodel.Doc, tv refmodel.Verdict, o *drv.Obs) {
			k := key{sc.Axes["leaf"], d.Text}
			v := verdicts[k]
			i := 0
			if sc.Axes["sized"] == "true" {
				i = 1
			}
			v[i] = "accept"
			ov := refmodel.Accept
			if o.Err != "" || o.Panic != "" {
				v[i] = "reject"
				ov = refmodel.Reject
			}
			verdicts[k] = v
			if ov != tv {
				// this side disagrees with the model: the comparison with the model has reported it or attributed it to a listed finding;
				// when it is a listed finding the two programs differ for that reason, not because of the flag's own logic
				var listed []string
				for _, dv := range c15Devs {
					if ctx.Run.Listed(dv) {
						listed = append(listed, dv)
					}
				}
				if _, ok := attribute(m, d.V, ov, listed); ok {
					explained[k] = true
				}
			}
		},
	})
	// the same integer schema visited twice by the generator: as the property of a definition, and again when a composite list
	// that contains a $ref to that definition is merged
	var shared []SCase
	sharedShape := map[string]c15Shape{}
	small := func(n *big.Int) bool { return n == nil || (n.Cmp(bi("-200")) >= 0 && n.Cmp(bi("300")) <= 0) }
	for _, sh := range shapes {
		_, e1 := sh.s["exclusiveMinimum"]
		_, e2 := sh.s["exclusiveMaximum"]
		if e1 || e2 || (ctx.Level == 0 && !(small(sh.lo) && small(sh.hi))) {
			continue
		}
		for _, sized := range []bool{false, true} {
			cfg := baseCfg()
			cfg.MinSizedInts = sized
			root := J{"type": "object",
				"properties": J{"c": J{"allOf": A{J{"$ref": "#/$defs/Base"}, J{"type": "object", "properties": J{"o": J{"type": "string"}}}}}, "b": J{"$ref": "#/$defs/Base"}},
				"$defs":      J{"Base": J{"type": "object", "properties": J{"v": sh.s}}}}
			id := fmt.Sprintf("C15/shared/%s/sized=%v", sh.name, sized)
			sharedShape[id] = sh
			shared = append(shared, SCase{ID: id, Schema: root, Cfg: cfg, Axes: map[string]string{"pos": "shared", "leaf": "shared/" + sh.name, "sized": fmt.Sprint(sized)}})
		}
	}
	runBehaviour(ctx, behaviour{Name: "shared", Cases: shared, Devs: c15Devs,
		DocGen: func(sc *SCase, m *refmodel.Model) []refmodel.Doc {
			var out []refmodel.Doc
			for _, d := range c15Docs(sharedShape[sc.ID]) {
				dm := d.V.(map[string]any)
				rv, ok := dm["r"]
				if !ok || (d.Class != "base" && d.Class != "num:r") {
					continue
				}
				base := c15Docs(sharedShape[sc.ID])[0].V.(map[string]any)["r"]
				for _, where := range []string{"c", "b"} {
					o := map[string]any{"c": map[string]any{"v": base}, "b": map[string]any{"v": base}}
					o[where] = map[string]any{"v": rv}
					cls := "num:" + where
					if d.Class == "base" {
						if where == "b" {
							continue
						}
						cls = "base"
					}
					out = append(out, refmodel.Doc{V: o, Text: jsonv.Text(o), Class: cls})
				}
			}
			return out
		},
		// every document of this family has a specified model verdict, and both programs are compared with the model: the
		// flag-on / flag-off differential is implied
	})
	n := 0
	for k, v := range verdicts {
		if v[0] == "" || v[1] == "" {
			continue
		}
		n++
		if v[0] != v[1] && strings.Contains(k.doc, ":-0") && v[0] == "accept" && ctx.Run.Listed("NEGATIVE_ZERO_REJECTED_BY_UNSIGNED_TYPE") {
			ctx.Run.Count("flag_on_off_pairs_differing_on_negative_zero(listed finding)", 1)
			continue
		}
		if v[0] != v[1] && explained[k] {
			ctx.Run.Count("flag_on_off_pairs_differing_by_a_listed_finding_of_one_side", 1)
			continue
		}
		if v[0] != v[1] {
			ctx.Run.Violation("flag-changes-acceptance", fmt.Sprintf("C15/%s: document %s is %sed without --min-sized-ints and %sed with it", k.shape, k.doc, v[0], v[1]),
				map[string]any{"kind": "decode-pair", "shape": k.shape, "document": k.doc, "without_flag": v[0], "with_flag": v[1]})
		}
	}
	ctx.Run.Count("flag_on_off_pairs_compared", n)
	ctx.Run.Assume("bounds are restricted to integers exactly representable as float64 (the generator parses schema numbers as float64); 2^63-1 is replaced by the adjacent float64 below 2^63",
		"documents are int64-representable (flag-off int fields cannot hold more)", "typed integer enums under the flag reject every value (listed finding) and are exercised by C08")
}

func c15Docs(sh c15Shape) []refmodel.Doc {
	seen := map[string]bool{}
	var nums []*big.Int
	addn := func(n *big.Int) {
		if n.Cmp(bi("-9223372036854775808")) < 0 || n.Cmp(bi("9223372036854775807")) > 0 || seen[n.String()] {
			return
		}
		seen[n.String()] = true
		nums = append(nums, n)
	}
	near := func(n *big.Int) {
		for d := int64(-2); d <= 2; d++ {
			addn(new(big.Int).Add(n, big.NewInt(d)))
		}
	}
	if sh.lo != nil {
		near(sh.lo)
	}
	if sh.hi != nil {
		near(sh.hi)
	}
	for _, l := range c15Limits {
		near(l)
	}
	near(bi("9223372036854775807"))
	near(bi("128"))
	near(bi("256"))
	near(bi("65536"))
	near(bi("4294967296"))
	// base: a value inside the range
	var base *big.Int
	switch {
	case sh.lo != nil:
		base = sh.lo
	case sh.hi != nil:
		base = sh.hi
	default:
		base = big.NewInt(0)
	}
	mk := func(vals map[string]any) refmodel.Doc {
		d := map[string]any{"r": num64(base), "o": num64(base), "n": num64(base), "d": num64(base)}
		for k, v := range vals {
			if v == "absent" {
				delete(d, k)
			} else {
				d[k] = v
			}
		}
		return refmodel.Doc{V: d, Text: jsonv.Text(d)}
	}
	var out []refmodel.Doc
	b := mk(nil)
	b.Class = "base"
	out = append(out, b)
	for _, n := range nums {
		for _, prop := range []string{"r", "o", "n", "d"} {
			var v any = num64(n)
			d := mk(map[string]any{prop: v})
			d.Class = "num:" + prop
			out = append(out, d)
		}
	}
	if (sh.lo == nil || sh.lo.Sign() <= 0) && (sh.hi == nil || sh.hi.Sign() >= 0) {
		// zero written with a sign: the same integer
		for _, prop := range []string{"r", "o", "n", "d"} {
			d := mk(map[string]any{prop: jsonNumber("-0")})
			d.Class = "num:negative-zero"
			out = append(out, d)
		}
	}
	for _, prop := range []string{"o", "n", "d"} {
		d := mk(map[string]any{prop: "absent"})
		d.Class = "absent"
		out = append(out, d)
	}
	for _, prop := range []string{"o", "n"} {
		d := mk(map[string]any{prop: nil})
		d.Class = "null"
		out = append(out, d)
	}
	return out
}

// c15CheckTypes parses the emitted source and compares the Go type chosen for the integer fields.
func c15CheckTypes(ctx *Ctx, sc *SCase, p *batch.Program, want string) {
	fset := token.NewFileSet()
	f, err := parser.ParseFile(fset, "g.go", p.Source, parser.SkipObjectResolution)
	if err != nil {
		return
	}
	got := map[string]string{}
	for _, d := range f.Decls {
		gd, ok := d.(*ast.GenDecl)
		if !ok || gd.Tok != token.TYPE {
			continue
		}
		for _, sp := range gd.Specs {
			ts := sp.(*ast.TypeSpec)
			switch t := ts.Type.(type) {
			case *ast.StructType:
				if ts.Name.Name != "S" {
					continue
				}
				for _, fl := range t.Fields.List {
					for _, n := range fl.Names {
						got["S."+n.Name] = exprString(fl.Type)
					}
				}
			case *ast.Ident:
				got[ts.Name.Name] = t.Name
			}
		}
	}
	expect := map[string]string{"S.R": want, "S.O": "*" + want, "S.N": "*" + want, "D": want}
	ctx.Run.Eval(p.SourceSig+"|types", true)
	for k, w := range expect {
		if g, ok := got[k]; !ok || g != w {
			ctx.Run.Violation("sized-type:"+strings.TrimPrefix(k, "S."), fmt.Sprintf("%s: %s has Go type %q, the narrowest type containing the admitted range is %q", sc.ID, k, g, w),
				map[string]any{"kind": "gen", "files": p.Case.Files, "cfg": p.Case.Cfg, "field": k, "got": g, "want": w})
			return
		}
	}
}

func exprString(e ast.Expr) string {
	switch x := e.(type) {
	case *ast.Ident:
		return x.Name
	case *ast.StarExpr:
		return "*" + exprString(x.X)
	case *ast.ArrayType:
		return "[]" + exprString(x.Elt)
	case *ast.SelectorExpr:
		return exprString(x.X) + "." + x.Sel.Name
	}
	return fmt.Sprintf("%T", e)
}

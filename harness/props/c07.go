package props

import (
	"fmt"
	"strings"

	"verif/internal/refmodel"
	"verif/internal/space"
)

func init() {
	register("C07", "exploration", c07)
	ruleText["C07"] = "arrays of depth 1..2 (thorough: 3) with an independent (minItems,maxItems) per level x element in {integer with bounds, string with minLength, object with required, nullable string} x {required, optional, nullable, $ref'd definition, root}; " +
		"documents = base plus, at each level, arrays of length 0,1,2,min-1,min,min+1,max-1,max,max+1, absent, null and one invalid element; verdict compared with the reference model (limits stated on that array; elements by their own schema); " +
		"non-trivial = differs from base; distinct = (source hash, document)"
}

var c07Devs = []string{"NESTED_ARRAY_OUTER_LIMITS", "ZERO_LIMIT_IGNORED", "UNENFORCED_NAMED_ARRAY", "UNENFORCED_ITEM_STRING", "UNENFORCED_ITEM_NUMERIC", "UNENFORCED_NAMED_ARRAY_ITEM_REQUIRED", "UNENFORCED_INLINE_STRUCT_PROPS"}

type lim struct {
	min, max any
}

func (l lim) String() string { return fmt.Sprintf("(%v,%v)", l.min, l.max) }

func c07(ctx *Ctx) {
	cases := c07Cases(ctx.Level)
	runBehaviour(ctx, behaviour{Name: "arrays", Cases: cases, Devs: c07Devs, Respell: true,
		DocFilter: func(sc *SCase, d *refmodel.Doc, tv refmodel.Verdict) bool {
			return !strings.Contains(d.Class, "type:") && !strings.Contains(d.Class, "extra-key")
		}})
	ctx.Run.Assume("one level deviates from the base document at a time", "null inside an array of non-nullable elements is outside the statement")
}

func c07Cases(level int) []SCase {
	lims := []lim{{nil, nil}, {1, nil}, {nil, 2}, {2, 2}, {nil, 1}}
	if level >= 1 {
		lims = append(lims, lim{1, 2}, lim{nil, 0}, lim{3, nil})
	}
	elems := []struct {
		name string
		s    J
	}{
		{"int", J{"type": "integer", "minimum": 1}},
		{"str", J{"type": "string", "minLength": 2}},
		{"obj", J{"type": "object", "properties": J{"k": J{"type": "string"}}, "required": A{"k"}}},
		{"nstr", J{"type": A{"string", "null"}}},
		{"null", J{"type": "null"}},
	}
	maxDepth := 2
	if level >= 1 {
		maxDepth = 3
	}
	var cases []SCase
	var rec func(depth int, chosen []lim)
	build := func(chosen []lim, el J) J {
		cur := space.Clone(el)
		for i := len(chosen) - 1; i >= 0; i-- {
			a := J{"type": "array", "items": cur}
			if chosen[i].min != nil {
				a["minItems"] = chosen[i].min
			}
			if chosen[i].max != nil {
				a["maxItems"] = chosen[i].max
			}
			cur = a
		}
		return cur
	}
	rec = func(depth int, chosen []lim) {
		if len(chosen) == depth {
			var ls []string
			for _, c := range chosen {
				ls = append(ls, c.String())
			}
			for _, el := range elems {
				if depth == 3 && (el.name == "obj" || el.name == "nstr" || el.name == "null") {
					continue
				}
				arr := build(chosen, el.s)
				name := fmt.Sprintf("d%d%s/%s", depth, strings.Join(ls, ""), el.name)
				ax := func(pos string) map[string]string { return map[string]string{"pos": pos, "leaf": name} }
				cases = append(cases, SCase{ID: "C07/props/" + name, Cfg: baseCfg(), Axes: ax("props"),
					Schema: J{"type": "object", "properties": J{"r": arr, "o": arr, "n": space.MakeNullable(arr, 0), "nr": space.MakeNullable(arr, 1)}, "required": A{"r", "nr"}}})
				if depth <= 2 {
					cases = append(cases, SCase{ID: "C07/def/" + name, Cfg: baseCfg(), Axes: ax("def"),
						Schema: J{"type": "object", "properties": J{"d": J{"$ref": "#/$defs/D"}, "do": J{"$ref": "#/$defs/D"}}, "required": A{"d"}, "$defs": J{"D": arr}}})
				}
				if depth >= 2 && el.name == "int" {
					// the inner arrays explicitly nullable ([array,null] / [null,array]): a null row is valid and is never length-checked
					na := nullableInner(arr, depth%2)
					cases = append(cases, SCase{ID: "C07/props-nullable-rows/" + name, Cfg: baseCfg(), Axes: ax("props-nullable-rows"),
						Schema: J{"type": "object", "properties": J{"r": na, "o": na}, "required": A{"r"}}})
				}
				if depth == 1 && (el.name == "int" || el.name == "str") {
					// the same array with a default (a valid value chosen by the reference model): an explicit array is still checked
					if lm, err := refmodel.New(map[string]string{"s.json": space.Text(arr)}, "s.json"); err == nil {
						if ds := lm.Docs(1); len(ds) > 0 && lm.Valid(ds[0].V) == refmodel.Accept {
							if dv, ok := ds[0].V.([]any); ok {
								ad := space.Clone(arr)
								ad["default"] = dv
								cases = append(cases, SCase{ID: "C07/default/" + name, Cfg: baseCfg(), Axes: ax("default"),
									Schema: J{"type": "object", "properties": J{"k": J{"type": "integer"}, "ad": ad}}})
							}
						}
					}
				}
				if depth == 1 {
					cases = append(cases, SCase{ID: "C07/root/" + name, Cfg: baseCfg(), Axes: ax("root"), Schema: space.Clone(arr)})
					cases = append(cases, SCase{ID: "C07/nested/" + name, Cfg: baseCfg(), Axes: ax("nested"),
						Schema: J{"type": "object", "properties": J{"w": J{"type": "array", "items": J{"type": "object", "properties": J{"r": arr}, "required": A{"r"}}}}}})
				}
			}
			return
		}
		for _, l := range lims {
			rec(depth, append(append([]lim{}, chosen...), l))
		}
	}
	for d := 1; d <= maxDepth; d++ {
		rec(d, nil)
	}
	if level == 0 {
		// depth 3 in the quick tier: integer elements only, the four basic limit shapes per level
		save := elems
		elems = elems[:1]
		rec(3, nil)
		elems = save
	}
	return cases
}

// nullableInner returns a copy of a nested array schema in which every array below the outermost one also admits null.
func nullableInner(arr J, order int) J {
	o := space.Clone(arr)
	cur := o
	for {
		it, ok := cur["items"].(J)
		if !ok || it["type"] != "array" {
			return o
		}
		if order == 0 {
			it["type"] = A{"array", "null"}
		} else {
			it["type"] = A{"null", "array"}
		}
		cur = it
	}
}

package props

import (
	"strings"

	"verif/internal/refmodel"
	"verif/internal/space"
)

func init() {
	register("C03", "exploration", c03)
	ruleText["C03"] = "every typed position kind (required/optional/nested property, array element at depth 1..3, typed map value, typed additional property, definition behind $ref, sized ints, formats, typed enums, type null, nullable in both orders) x every schema type is generated and compiled; " +
		"documents = valid base with that one position replaced by a representative of every other JSON type (string, non-integral number, integer, true, [], [1], {}, {k:1}) and null; verdict compared with the reference model; " +
		"non-trivial = document differs from base; distinct = (source hash, document)"
}

var c03Devs = []string{"REQUIRED_UNDECLARED_IGNORED", "SIZED_UINT8_ARRAY_IS_BYTES", "NULL_OBJECT_VALIDATES_ZERO", "SIZED_INT_ENUM_REJECTS_ALL", "ADDL_INT_TRUNCATES", "ADDL_NONPRIMITIVE_UNTYPED", "NULL_TO_ADDL_STRUCT_ERRORS", "FORMAT_DEF_NO_METHODS", "NULLTYPE_UNENFORCED"}

func c03Types() []space.Leaf {
	var ls []space.Leaf
	for _, l := range space.Leaves(1) {
		switch l.Name {
		case "string", "integer", "number", "boolean", "null", "string-date", "string-time", "string-datetime", "string-ipv4", "string-ipv6",
			"enum-str-typed", "enum-int-typed", "enum-num-typed", "enum-bool-typed", "array-str", "array-array", "array-obj", "object", "object-empty", "map-str", "map-obj", "map-int", "map-int-required", "map-ref-obj", "map-ref-str", "map-enum-untyped",
			"integer-minmax", "object-addl-typed", "object-addl-str", "object-addl-ref", "array-3d", "array-nullable-items", "array-null-items", "array-null-items-lim", "array-int-lim", "array-str-lim":
			ls = append(ls, l)
		}
	}
	return ls
}

func c03(ctx *Ctx) {
	var cases []SCase
	for _, pos := range space.Positions(1) {
		if strings.HasPrefix(pos.Name, "allof") || strings.HasPrefix(pos.Name, "anyof") {
			continue // composites are C11's subject
		}
		if ctx.Level == 0 && (pos.Name == "item2" || pos.Name == "itemobj") {
			continue
		}
		for _, l := range c03Types() {
			for _, nu := range []int{-1, 0, 1} {
				if nu >= 0 && !l.Nullable {
					continue
				}
				if nu == 1 && ctx.Level == 0 {
					continue
				}
				for _, required := range []bool{true, false} {
					if !required && (pos.Name == "root" || pos.Name == "addl") {
						continue
					}
					for _, sized := range []bool{false, true} {
						if sized && !strings.Contains(l.Name, "int") {
							continue
						}
						s := space.Clone(l.S)
						if nu >= 0 {
							s = space.MakeNullable(s, nu)
						}
						cfg := baseCfg()
						cfg.MinSizedInts = sized
						root, ok := wrapLeaf(pos, l, s, required)
						if !ok {
							continue
						}
						cases = append(cases, SCase{
							ID:     space.Sprintf("C03/%s/%s/null=%d/req=%v/sized=%v", pos.Name, l.Name, nu, required, sized),
							Schema: root, Cfg: cfg,
							Axes: map[string]string{"pos": pos.Name, "leaf": l.Name},
						})
					}
				}
			}
		}
	}
	runBehaviour(ctx, behaviour{Name: "types", Cases: cases, K: 1, Devs: c03Devs,
		DocFilter: func(sc *SCase, d *refmodel.Doc, tv refmodel.Verdict) bool {
			c := coarseClass(d.Class)
			return c == "base" || c == "type:" || c == "null" || strings.HasPrefix(c, "type") || strings.HasPrefix(c, "enum-other") ||
				strings.HasPrefix(c, "item:type") || strings.HasPrefix(c, "item:null") || strings.HasPrefix(c, "mapval:type") || strings.HasPrefix(c, "mapval:null") ||
				strings.HasPrefix(c, "addl:type") || strings.HasPrefix(c, "addl:null")
		}})
	ctx.Run.Assume("null at a non-nullable position is judged only where a statement defines it (optional string/number/array properties, defaulted properties)",
		"integral numbers spelled with a fraction or exponent and integers outside int64 are not judged", "format strings are drawn from valid examples only")
}

package props

import (
	"fmt"

	"verif/internal/refmodel"
	"verif/internal/space"
)

func init() {
	register("C06", "exploration", c06)
	ruleText["C06"] = "every subset of {minLength, maxLength, pattern} over a small value grid x {required, optional, nullable-optional, nullable-required, named definition, root, optional with a default (+ nested, allOf/anyOf branch in thorough)} is generated, compiled and fed strings of length min-1, min, max, max+1 in 1-, 2-, 3- and 4-byte characters, matching and non-matching, absent and null; " +
		"verdicts compared with the reference model (length in characters); non-trivial = differs from the base document; distinct = (source hash, document)"
}

var c06Devs = []string{"NULLABLE_DEF_UNENFORCED", "LEN_BYTES", "ZERO_LIMIT_IGNORED", "ENUM_SIBLING_CONSTRAINTS_IGNORED", "FORMAT_STRING_CONSTRAINTS_IGNORED", "PATTERN_CR_DROPPED"}

func c06(ctx *Ctx) {
	runBehaviour(ctx, behaviour{Name: "str", Cases: c06Cases(ctx.Level), K: 1, Devs: c06Devs, Respell: true})
	ctx.Run.Assume("inline strings as array items / map values are judged under C07, not here", "patterns are evaluated by Go regexp in both the model and the generated code (the regexp engine is trusted)",
		"null at a required non-nullable position is outside the statement")
}

func c06Cases(level int) []SCase {
	var out []SCase
	mins := []any{nil, 1, 2}
	maxs := []any{nil, 3, 2}
	pats := []any{nil, "^a", "^[a-cé]{2,3}$", "^[0-9a]{1,3}%$"}
	if level >= 1 {
		mins = append(mins, 0, 3)
		maxs = append(maxs, 0, 1, 4)
		pats = append(pats, "b$", "é", "^[^-]*$")
	}
	for _, mn := range mins {
		for _, mx := range maxs {
			for _, pt := range pats {
				l := J{"type": "string"}
				name := "string"
				if mn != nil {
					l["minLength"] = mn
					name += fmt.Sprintf(",min=%v", mn)
				}
				if mx != nil {
					l["maxLength"] = mx
					name += fmt.Sprintf(",max=%v", mx)
				}
				if pt != nil {
					l["pattern"] = pt
					name += fmt.Sprintf(",pat=%v", pt)
				}
				if len(l) == 1 {
					continue
				}
				nl := space.MakeNullable(l, 0)
				nl2 := space.MakeNullable(l, 1)
				ax := func(pos string) map[string]string { return map[string]string{"pos": pos, "leaf": name} }
				out = append(out, SCase{ID: "C06/props/" + name, Cfg: baseCfg(), Axes: ax("props"),
					Schema: J{"type": "object", "properties": J{"r": l, "o": l, "no": nl, "nr": nl2}, "required": A{"r", "nr"}}})
				out = append(out, SCase{ID: "C06/def/" + name, Cfg: baseCfg(), Axes: ax("def"),
					Schema: J{"type": "object", "properties": J{"d": J{"$ref": "#/$defs/D"}, "do": J{"$ref": "#/$defs/D"}, "da": J{"type": "array", "items": J{"$ref": "#/$defs/D"}}, "dn": J{"$ref": "#/$defs/DN"}},
						"required": A{"d"}, "$defs": J{"D": l, "DN": nl}}})
				out = append(out, SCase{ID: "C06/root/" + name, Cfg: baseCfg(), Axes: ax("root"), Schema: space.Clone(l)})
				// the same string with a default (a valid value chosen by the reference model): the field then is not a pointer, and an
				// absent or null value still must not be checked
				if lm, err := refmodel.New(map[string]string{"s.json": space.Text(l)}, "s.json"); err == nil {
					if ds := lm.Docs(1); len(ds) > 0 && lm.Valid(ds[0].V) == refmodel.Accept {
						if dv, ok := ds[0].V.(string); ok && isASCII(dv) { // a multi-byte default meets the byte-length finding KF-C06-1 through the back door
							ld := space.Clone(l)
							ld["default"] = dv
							out = append(out, SCase{ID: "C06/default/" + name, Cfg: baseCfg(), Axes: ax("default"),
								Schema: J{"type": "object", "properties": J{"k": J{"type": "integer"}, "od": ld}}})
						}
					}
				}
				if level >= 1 {
					out = append(out, SCase{ID: "C06/nested/" + name, Cfg: baseCfg(), Axes: ax("nested"),
						Schema: J{"type": "object", "properties": J{"n": J{"type": "object", "properties": J{"r": l, "o": l}, "required": A{"r"}}}, "required": A{"n"}}})
					out = append(out, SCase{ID: "C06/allof/" + name, Cfg: baseCfg(), Axes: ax("allof"),
						Schema: J{"type": "object", "properties": J{"c": J{"allOf": A{J{"type": "object", "properties": J{"r": l}, "required": A{"r"}}, J{"type": "object", "properties": J{"o": l}}}}}, "required": A{"c"}}})
				}
			}
		}
	}
	// length limits / pattern stated next to an enum or next to a format that is carried by a Go type: the text of a listed value /
	// of a well-formed date still has to satisfy them; a pattern containing a carriage return
	for _, sp := range []struct {
		name string
		l    J
	}{
		{"string-enum,min=3", J{"type": "string", "enum": A{"a", "abcd"}, "minLength": 3}},
		{"string-enum,max=2", J{"type": "string", "enum": A{"a", "abcd"}, "maxLength": 2}},
		{"string-enum,pat=^abc", J{"type": "string", "enum": A{"a", "abcd"}, "pattern": "^abc"}},
		{"string-date-time,max=5", J{"type": "string", "format": "date-time", "maxLength": 5}},
		{"string-date,pat=^2024", J{"type": "string", "format": "date", "pattern": "^2024"}},
		{"string-ipv4,min=12", J{"type": "string", "format": "ipv4", "minLength": 12}},
		{"string,pat=^a<CR>b$", J{"type": "string", "pattern": "^a\rb$"}},
		{"string,pat=^a<LF>b$", J{"type": "string", "pattern": "^a\nb$"}},
		{"string,pat=^a<LF><LF>[bc]$", J{"type": "string", "pattern": "^a\n\n[bc]$", "maxLength": 4}},
	} {
		l := sp.l
		ax := map[string]string{"pos": "props", "leaf": sp.name}
		out = append(out, SCase{ID: "C06/props/" + sp.name, Cfg: baseCfg(), Axes: ax,
			Schema: J{"type": "object", "properties": J{"r": l, "o": l}, "required": A{"r"}}})
		if _, isFmt := l["format"]; isFmt {
			continue // a format-typed definition has no methods at all (KF-C02-1, C02's subject)
		}
		out = append(out, SCase{ID: "C06/def/" + sp.name, Cfg: baseCfg(), Axes: map[string]string{"pos": "def", "leaf": sp.name},
			Schema: J{"type": "object", "properties": J{"d": J{"$ref": "#/$defs/D"}, "do": J{"$ref": "#/$defs/D"}}, "required": A{"d"}, "$defs": J{"D": l}}})
	}
	// two schemas that map to the same Go type name and differ only in a string constraint: each keeps its own
	for i, pair := range [][2]J{{{"minLength": 2}, {"minLength": 4}}, {{"maxLength": 3}, {"maxLength": 5}}, {{"pattern": "^a"}, {"pattern": "^b"}}, {{"minLength": 2}, {}}} {
		mk := func(c J) J {
			p := J{"type": "string"}
			for k, v := range c {
				p[k] = v
			}
			return J{"type": "object", "properties": J{"s": p}, "required": A{"s"}}
		}
		out = append(out, SCase{ID: fmt.Sprintf("C06/same-type-name/inline-vs-def/%d", i), Cfg: baseCfg(), Axes: map[string]string{"pos": "same-type-name", "leaf": fmt.Sprint(i)},
			Schema: J{"type": "object", "properties": J{"a": J{"type": "object", "properties": J{"b": mk(pair[0])}}, "viaRef": J{"$ref": "#/$defs/SAB"}}, "$defs": J{"SAB": mk(pair[1])}}})
		out = append(out, SCase{ID: fmt.Sprintf("C06/same-type-name/two-defs/%d", i), Cfg: baseCfg(), Axes: map[string]string{"pos": "same-type-name", "leaf": fmt.Sprint(i)},
			Schema: J{"type": "object", "properties": J{"x": J{"$ref": "#/$defs/limits"}, "y": J{"$ref": "#/$defs/Limits"}}, "$defs": J{"limits": mk(pair[0]), "Limits": mk(pair[1])}}})
	}
	out = append(out, collisionTriples("C06", func(i int) J {
		return []J{{"type": "string", "minLength": 2, "maxLength": 4}, {"type": "string", "minLength": 5, "maxLength": 8, "pattern": "^[a-c]+$"}, {"type": "string", "pattern": "^Z"}}[i]
	}, false)...)
	return out
}

func isASCII(s string) bool {
	for i := 0; i < len(s); i++ {
		if s[i] >= 0x80 {
			return false
		}
	}
	return true
}

package props

import (
	"fmt"
	"regexp"
	"strings"
	"verif/drv"

	"verif/internal/refmodel"
	"verif/internal/space"
)

func init() {
	register("C09", "exploration", c09)
	ruleText["C09"] = "property schemas of type string, integer, number, boolean, arrays of each, string enum, object (all members required / some optional), map, each with a default valid for it x {plain, nullable, with format} x {root property, nested property, allOf branch, property of a definition}; " +
		"documents = property absent, null, present with other valid values incl. the type's zero value; oracle = the program compiles (the default literal has the field's type), absent/null -> decoded field equals the default, present -> document value kept; " +
		"non-trivial = differs from base; distinct = (source hash, document)"
}

var c09Devs = []string{"NULL_OBJECT_VALIDATES_ZERO", "ANYOF_MERGED_NO_DEFAULTS", "INLINE_STRUCT_NO_DEFAULTS", "DEFAULT_ENUM_NULL_REJECTED", "DEFAULT_MAP_EMPTIED", "SIZED_INT_ENUM_REJECTS_ALL", "NULL_TO_ADDL_STRUCT_ERRORS"}

// buildRule attributes a known compile failure: message pattern plus a predicate over the case axes.
type buildRule struct {
	name string
	re   *regexp.Regexp
	pred func(ax map[string]string) bool
}

var c09BuildRules = []buildRule{
	{"DEFAULT_NULLABLE_LITERAL", regexp.MustCompile(`cannot use .* as \*\w+ value in assignment`), func(ax map[string]string) bool { return ax["nullable"] == "true" }},
	{"DEFAULT_FORMAT_LITERAL", regexp.MustCompile(`cannot use "[^"]*" \(untyped string constant\) as (\*?)(netip\.Addr|time\.Time|types\.Serializable(Date|Time)) value in assignment`), func(ax map[string]string) bool { return ax["format"] != "" }},
	{"DEFAULT_OBJECT_LITERAL", regexp.MustCompile(`(cannot use .* as (\*\w+|\w+) value in struct literal|cannot use map\[string\]interface ?\{\}.* as \w+ value in assignment|missing type in composite literal|invalid composite literal type)`), func(ax map[string]string) bool { return ax["kind"] == "object" }},
	{"DEFAULT_TYPE_SHADOWED_BY_LOCAL_PLAIN", regexp.MustCompile(`(cannot use Plain\{.*\} \(value of type Plain\) as Plain value in assignment|unknown field \w+ in struct literal of type Plain)`), func(ax map[string]string) bool { return ax["pos"] == "object-default-by-ref" && ax["leaf"] == "plain" }},
	{"DEFAULT_NESTED_ARRAY_LITERAL", regexp.MustCompile(`cannot use \[\]interface ?\{\}.* as \[\]\w+ value in (array or slice literal|assignment)`), func(ax map[string]string) bool { return ax["leaf"] == "array-array" }},
	{"DEFAULT_MIXED_ENUM_LITERAL", regexp.MustCompile(`cannot use .* \(untyped \w+ constant.*\) as \w+ value in assignment`), func(ax map[string]string) bool { return ax["kind"] == "enum-wrapped" }},
}

func attributeBuild(ctx *Ctx, sc *SCase, msg string, rules []buildRule, replay any) {
	lines := strings.Split(strings.TrimSpace(msg), "\n")
	used := map[string]bool{}
	for _, l := range lines {
		l = strings.TrimSpace(l)
		if l == "" || strings.HasPrefix(l, "too many errors") {
			continue
		}
		ok := false
		for _, r := range rules {
			if ctx.Run.Listed(r.name) && r.re.MatchString(l) && r.pred(sc.Axes) {
				used[r.name] = true
				ok = true
				break
			}
		}
		if !ok {
			ctx.Run.Violation("compile:"+normCompileMsg(l), fmt.Sprintf("%s: emitted code does not compile: %s", sc.ID, l), replay)
			return
		}
	}
	for r := range used {
		ctx.Run.Known(r, sc.ID+": "+firstLine(msg), replay)
	}
}

var reQuoted = regexp.MustCompile(`"[^"]*"|\b\d+(\.\d+)?\b|\b[A-Z]\w*\b`)

func normCompileMsg(l string) string {
	if i := strings.Index(l, ": "); i >= 0 && i < 20 {
		l = l[i+2:]
	}
	l = reQuoted.ReplaceAllString(l, "_")
	if len(l) > 90 {
		l = l[:90]
	}
	return l
}

type c09Leaf struct {
	name, kind, format string
	s                  J
	def                any
	nullable           bool
}

func c09Leaves(level int) []c09Leaf {
	ls := []c09Leaf{
		{"string", "string", "", J{"type": "string"}, "dflt", true},
		{"string-len", "string", "", J{"type": "string", "minLength": 2}, "dflt", true},
		{"integer", "integer", "", J{"type": "integer"}, 7, true},
		{"integer-bounds", "integer", "", J{"type": "integer", "minimum": 1, "maximum": 10}, 7, true},
		{"number", "number", "", J{"type": "number"}, 1.5, true},
		{"number-int-default", "number", "", J{"type": "number"}, 2, true},
		{"boolean", "boolean", "", J{"type": "boolean"}, true, true},
		{"array-str", "array", "", J{"type": "array", "items": J{"type": "string"}}, A{"x", "y"}, true},
		{"array-int", "array", "", J{"type": "array", "items": J{"type": "integer"}}, A{1, 2}, true},
		{"array-num", "array", "", J{"type": "array", "items": J{"type": "number"}}, A{1.5}, true},
		{"array-bool", "array", "", J{"type": "array", "items": J{"type": "boolean"}}, A{true, false}, true},
		{"array-empty-default", "array", "", J{"type": "array", "items": J{"type": "string"}}, A{}, true},
		// text that a format string, a Go string literal or a raw string would mangle, as scalar default and as array elements
		{"string-text-default", "string", "", J{"type": "string"}, "50% off %d %s 100%% \"q\" \\ `t` é", true},
		{"array-str-text-default", "array", "", J{"type": "array", "items": J{"type": "string"}}, A{"%Y-%m-%d", "50% off", "100%%", "\"q\" \\ `t`", "é\n"}, true},
		{"array-str-percent-end-default", "array", "", J{"type": "array", "items": J{"type": "string"}}, A{"a%", "%"}, true},
		{"enum-str", "enum", "", J{"type": "string", "enum": A{"a", "b"}}, "b", false},
		{"enum-str-untyped", "enum", "", J{"enum": A{"a", "b"}}, "a", false},
		{"enum-int", "enum", "", J{"type": "integer", "enum": A{1, 2, 3}}, 2, false},
		{"object-allreq", "object", "", J{"type": "object", "properties": J{"k": J{"type": "string"}, "n": J{"type": "integer"}}, "required": A{"k", "n"}}, J{"k": "v", "n": 3}, true},
		{"object-someopt", "object", "", J{"type": "object", "properties": J{"k": J{"type": "string"}, "n": J{"type": "integer"}}, "required": A{"k"}}, J{"k": "v", "n": 3}, true},
		{"object-key-spellings", "object", "", J{"type": "object", "properties": J{"my_key": J{"type": "string"}, "id": J{"type": "integer"}}, "required": A{"my_key", "id"}}, J{"my_key": "v", "id": 3}, true},
		{"object-with-typed-additional", "object", "", J{"type": "object", "properties": J{"k": J{"type": "string"}}, "required": A{"k"}, "additionalProperties": J{"type": "string"}}, J{"k": "v"}, true},
		{"map-str", "map", "", J{"type": "object", "additionalProperties": J{"type": "string"}}, J{"x": "y"}, true},
		{"map-empty-default", "map", "", J{"type": "object", "additionalProperties": J{"type": "string"}}, J{}, true},
		{"string-date", "string", "date", J{"type": "string", "format": "date"}, "2024-02-29", true},
		{"string-datetime", "string", "date-time", J{"type": "string", "format": "date-time"}, "2024-02-29T12:34:56Z", true},
		{"string-ipv4", "string", "ipv4", J{"type": "string", "format": "ipv4"}, "10.0.0.1", true},
	}
	if level >= 1 {
		ls = append(ls,
			c09Leaf{"string-empty-default", "string", "", J{"type": "string"}, "", true},
			c09Leaf{"string-special-default", "string", "", J{"type": "string"}, "a\"b\\c\n`d", true},
			c09Leaf{"integer-zero-default", "integer", "", J{"type": "integer"}, 0, true},
			c09Leaf{"integer-neg-default", "integer", "", J{"type": "integer"}, -3, true},
			c09Leaf{"boolean-false-default", "boolean", "", J{"type": "boolean"}, false, true},
			c09Leaf{"number-big", "number", "", J{"type": "number"}, 1e21, true},
			c09Leaf{"array-array", "array", "", J{"type": "array", "items": J{"type": "array", "items": J{"type": "integer"}}}, A{A{1}}, true},
			c09Leaf{"enum-mixed", "enum-wrapped", "", J{"enum": A{"a", 1, true}}, "a", false},
			c09Leaf{"string-time", "string", "time", J{"type": "string", "format": "time"}, "12:34:56", true},
			c09Leaf{"object-nested", "object", "", J{"type": "object", "properties": J{"o": J{"type": "object", "properties": J{"k": J{"type": "string"}}, "required": A{"k"}}}, "required": A{"o"}}, J{"o": J{"k": "v"}}, true},
			c09Leaf{"any", "any", "", J{}, "x", false},
			// an object default whose members carry constraints (the default satisfies them), and one whose keys are not plain lower-case words
			c09Leaf{"object-constrained-members", "object", "", J{"type": "object", "properties": J{"k": J{"type": "string", "minLength": 2}, "n": J{"type": "integer", "minimum": 1}}, "required": A{"k", "n"}}, J{"k": "vv", "n": 3}, false},
		)
	}
	return ls
}

func c09Cases(level int) []SCase {
	var cases []SCase
	for _, l := range c09Leaves(level) {
		for _, nu := range []bool{false, true} {
			if nu && !l.nullable {
				continue
			}
			for _, sized := range []bool{false, true} {
				if sized && !(strings.Contains(l.name, "int") && level >= 1) {
					continue
				}
				s := space.Clone(l.s)
				if nu {
					s = space.MakeNullable(s, 0)
				}
				s["default"] = l.def
				cfg := baseCfg()
				cfg.MinSizedInts = sized
				name := fmt.Sprintf("%s/null=%v/sized=%v", l.name, nu, sized)
				ax := func(pos string) map[string]string {
					return map[string]string{"pos": pos, "leaf": l.name, "kind": l.kind, "format": l.format, "nullable": fmt.Sprint(nu)}
				}
				sib := J{"type": "string"}
				cases = append(cases, SCase{ID: "C09/prop/" + name, Cfg: cfg, Axes: ax("prop"),
					Schema: J{"type": "object", "properties": J{"p": s, "q": sib}}})
				cases = append(cases, SCase{ID: "C09/prop-listed-required/" + name, Cfg: cfg, Axes: ax("prop-required"),
					Schema: J{"type": "object", "properties": J{"p": s, "q": sib}, "required": A{"p"}}})
				cases = append(cases, SCase{ID: "C09/nested/" + name, Cfg: cfg, Axes: ax("nested"),
					Schema: J{"type": "object", "properties": J{"n": J{"type": "object", "properties": J{"p": s}}}, "required": A{"n"}}})
				if level >= 1 {
					cases = append(cases, SCase{ID: "C09/allof/" + name, Cfg: cfg, Axes: ax("allof"),
						Schema: J{"type": "object", "properties": J{"c": J{"allOf": A{J{"type": "object", "properties": J{"p": s}}, J{"type": "object", "properties": J{"q": sib}}}}}, "required": A{"c"}}})
					cases = append(cases, SCase{ID: "C09/def/" + name, Cfg: cfg, Axes: ax("def"),
						Schema: J{"type": "object", "properties": J{"d": J{"$ref": "#/$defs/D"}}, "required": A{"d"}, "$defs": J{"D": J{"type": "object", "properties": J{"p": s}}}}})
					if !sized && l.kind != "enum" && l.kind != "enum-wrapped" && l.name != "object-constrained-members" { // (enum carriers in the merged struct: KF-C11-1 / KF-C08-1)
						cases = append(cases, SCase{ID: "C09/anyof/" + name, Cfg: cfg, Axes: ax("anyof"),
							Schema: J{"type": "object", "properties": J{"c": J{"anyOf": A{J{"type": "object", "properties": J{"p": s, "t": J{"type": "string"}}, "required": A{"t"}}, J{"type": "object", "properties": J{"q": sib}, "required": A{"q"}}}}}, "required": A{"c"}}})
					}
					cases = append(cases, SCase{ID: "C09/item/" + name, Cfg: cfg, Axes: ax("item"),
						Schema: J{"type": "object", "properties": J{"a": J{"type": "array", "items": J{"type": "object", "properties": J{"p": s}}}}}})
				}
			}
		}
	}
	// the property is declared by one allOf member and given its default by a later one (inline and by reference): the merged type has both
	for _, pr := range []struct {
		name string
		typ  J
		def  any
	}{{"integer", J{"type": "integer"}, 9000}, {"string", J{"type": "string"}, "dflt"}, {"array", J{"type": "array", "items": J{"type": "string"}}, A{"x"}}} {
		for _, ref := range []bool{false, true} {
			declaring := J{"type": "object", "properties": J{"p": space.Clone(pr.typ), "k": J{"type": "string"}}}
			later := J{"type": "object", "properties": J{"p": space.With(pr.typ, "default", pr.def)}}
			root := J{"type": "object", "properties": J{"c": J{"allOf": A{declaring, later}}}, "required": A{"c"}}
			if ref {
				root = J{"type": "object", "properties": J{"c": J{"allOf": A{J{"$ref": "#/$defs/Base"}, later}}}, "required": A{"c"}, "$defs": J{"Base": declaring}}
			}
			cases = append(cases, SCase{ID: fmt.Sprintf("C09/allof-later-default/%s/ref=%v", pr.name, ref), Cfg: baseCfg(), Schema: root,
				Axes: map[string]string{"pos": "allof-later-default", "leaf": pr.name, "kind": pr.name}})
		}
	}
	// two schemas that map to the same Go type name (inline S.a.b vs definition "SAB", two definitions differing only in
	// case) and are identical except for their defaults: each must keep its own default
	for i, pair := range [][2]any{{3, 10}, {"x", "y"}, {true, false}, {A{1}, A{2, 3}}} {
		typ := []string{"integer", "string", "boolean", "array"}[i]
		mk := func(d any) J {
			p := J{"type": typ, "default": d}
			if typ == "array" {
				p["items"] = J{"type": "integer"}
			}
			return J{"type": "object", "properties": J{"n": p, "keep": J{"type": "string"}}}
		}
		cases = append(cases, SCase{ID: fmt.Sprintf("C09/same-type-name/inline-vs-def/%s", typ), Cfg: baseCfg(), Axes: map[string]string{"pos": "same-type-name", "leaf": typ, "kind": typ},
			Schema: J{"type": "object", "properties": J{"a": J{"type": "object", "properties": J{"b": mk(pair[0])}}, "viaRef": J{"$ref": "#/$defs/SAB"}}, "$defs": J{"SAB": mk(pair[1])}}})
		cases = append(cases, SCase{ID: fmt.Sprintf("C09/same-type-name/two-defs/%s", typ), Cfg: baseCfg(), Axes: map[string]string{"pos": "same-type-name", "leaf": typ, "kind": typ},
			Schema: J{"type": "object", "properties": J{"x": J{"$ref": "#/$defs/limits"}, "y": J{"$ref": "#/$defs/Limits"}}, "$defs": J{"limits": mk(pair[0]), "Limits": mk(pair[1])}}})
	}
	// an object default for a property whose type is a definition called like the helper type the methods declare locally (Plain), and, as a
	// control, the same with a definition of another name
	for _, dn := range []string{"plain", "Thing"} {
		cases = append(cases, SCase{ID: "C09/object-default-by-ref/" + dn, Cfg: baseCfg(), Axes: map[string]string{"pos": "object-default-by-ref", "leaf": dn, "kind": "object-by-ref"},
			Schema: J{"type": "object", "properties": J{"p": J{"$ref": "#/$defs/" + dn, "default": J{"x": 1}}, "q": J{"type": "string"}},
				"$defs": J{dn: J{"type": "object", "properties": J{"x": J{"type": "integer"}}, "required": A{"x"}}}}})
	}
	return cases
}

func c09(ctx *Ctx) {
	cases := c09Cases(ctx.Level)
	runBehaviour(ctx, behaviour{Name: "defaults", Cases: cases, Devs: c09Devs, Values: true, Respell: true,
		// null for an object with declared properties and typed additional properties: the struct's own unmarshaler hands a nil raw map to
		// mapstructure before any default could apply (KF-C03-3; the model's rule for it is written for nullable objects)
		KnownMismatch: func(sc *SCase, d *refmodel.Doc, o *drv.Obs) string {
			if sc.Axes["leaf"] == "object-with-typed-additional" && strings.Contains(d.Class, "null") && strings.Contains(o.Err+o.Panic, "reflect.Set: value of type map[string]interface {}") {
				return "NULL_TO_ADDL_STRUCT_ERRORS"
			}
			return respelledFormatEscape(sc, d, o)
		},
		OnBuildErr: func(sc *SCase, msg string) {
			attributeBuild(ctx, sc, msg, c09BuildRules, map[string]any{"kind": "gen", "files": sc.Case().Files, "cfg": sc.Case().Cfg, "compiler": msg})
		},
		DocFilter: func(sc *SCase, d *refmodel.Doc, tv refmodel.Verdict) bool {
			if sc.Axes["pos"] == "anyof" {
				// only the documents this property is about: the defaulted property absent, null, or as in the base document (a value
				// that only the other branch accepts meets the Go field types of the merged struct: KF-C11-1, C11's subject)
				keep := d.Class == "base"
				if dv, ok := d.V.(map[string]any); ok {
					if c, ok := dv["c"].(map[string]any); ok {
						if pv, present := c["p"]; !present || pv == nil {
							keep = true
						}
					}
				}
				if !keep {
					return false
				}
			}
			return tv == refmodel.Accept
		}})
	ctx.Run.Assume("only documents valid in the reference model are decoded (the statement is about decoded values)",
		"a property that is listed in required AND declares a default is treated as optional, as the statement of C04 says")
}

func init() {
	// a property declared (with its default) by an anyOf branch: the value is decoded into the struct merged from all branches, which
	// has no default validators - absent / null leave the Go zero value
	valueDeviations["ANYOF_MERGED_NO_DEFAULTS"] = func(m *refmodel.Model, sc *SCase, d refmodel.Doc, want, got any, diff string) bool {
		if sc.Axes["pos"] != "anyof" || !strings.Contains(diff, ".c.p") {
			return false
		}
		if dv, ok := d.V.(map[string]any); ok {
			if c, ok := dv["c"].(map[string]any); ok {
				if pv, present := c["p"]; present && pv != nil {
					return false // the document gives the property: nothing to default
				}
			}
		}
		return jsonvDiffWithout(want, got, "p") == ""
	}
	// typed additionalProperties + default: the stated default map is replaced by an empty map of the value type
	valueDeviations["DEFAULT_MAP_EMPTIED"] = func(m *refmodel.Model, sc *SCase, d refmodel.Doc, want, got any, diff string) bool {
		if sc.Axes["kind"] != "map" || !strings.Contains(diff, ".p") {
			return false
		}
		gp := findKey(got, "p")
		if gm, ok := gp.(map[string]any); gp != nil && (!ok || len(gm) != 0) {
			return false
		}
		return jsonvDiffWithout(want, got, "p") == ""
	}
}

func findKey(v any, key string) any {
	switch x := v.(type) {
	case map[string]any:
		if e, ok := x[key]; ok {
			return e
		}
		for _, e := range x {
			if r := findKey(e, key); r != nil {
				return r
			}
		}
	case []any:
		for _, e := range x {
			if r := findKey(e, key); r != nil {
				return r
			}
		}
	}
	return nil
}

func dropKey(v any, key string) any {
	switch x := v.(type) {
	case map[string]any:
		o := map[string]any{}
		for k, e := range x {
			if k != key {
				o[k] = dropKey(e, key)
			}
		}
		return o
	case []any:
		o := make([]any, len(x))
		for i := range x {
			o[i] = dropKey(x[i], key)
		}
		return o
	}
	return v
}

package props

import (
	"bytes"
	"encoding/json"
	"fmt"
	"os"
	"path/filepath"
	"sort"
	"strings"
	"time"

	"verif/internal/genlab"
	"verif/internal/space"
	"verif/internal/ws"
)

func init() {
	register("C12", "model_checking", c12)
	ruleText["C12"] = "stateless model checking over Go map-iteration schedules: every `range` over a map in the repository is rewritten (build-time overlay, recomputed from the working tree) to iterate in an order chosen by a controlled scheduler; " +
		"for each scenario (schema set x options chosen to maximise map traffic) all schedules with <= 1 (thorough: <= 2) non-canonical orders over all choice points are executed in-process and, for main.go's maps, in the instrumented CLI (all n! orders for n <= 5 keys, rotations + adjacent transpositions + reversal above); " +
		"plus every key permutation of every JSON object of the schema (one object at a time), the schema directory at three absolute locations and by relative path, and the uninstrumented binary in three separate processes; oracle = byte-identical outputs under identical names compared with the canonical run; " +
		"states = distinct (schedule prefix) nodes of the exploration tree, transitions = executions"
}

type c12Scenario struct {
	name  string
	files []genlab.File
	args  []string
	cfg   genlab.Cfg
}

func c12Scenarios(level int) []c12Scenario {
	str, in := J{"type": "string"}, J{"type": "integer"}
	big := J{"$id": "https://example.com/big", "type": "object",
		"properties": J{"zeta": str, "alpha": in, "mid": J{"type": "object", "properties": J{"b": str, "a": in, "c": J{"type": "boolean"}}, "required": A{"b", "a"}},
			"list": J{"type": "array", "items": J{"$ref": "#/$defs/Item"}}, "e": J{"type": "string", "enum": A{"x", "y", "z"}},
			"dflt": J{"type": "object", "properties": J{"k": str, "j": in, "l": J{"type": "boolean"}}, "required": A{"k", "j", "l"}, "default": J{"k": "v", "j": 1, "l": true}},
			"any":  J{"anyOf": A{J{"type": "object", "properties": J{"p": str, "q": in}, "required": A{"p"}}, J{"type": "object", "properties": J{"r": str, "q": in}, "required": A{"r"}}}}},
		"required": A{"zeta", "alpha"},
		"$defs": J{"Item": J{"type": "object", "properties": J{"y": str, "x": in}}, "Other": J{"type": "object", "properties": J{"n": J{"type": "number", "minimum": 1}}},
			"Beta": J{"type": "string", "minLength": 2}, "Aleph": J{"type": "array", "items": in}}}
	var sc []c12Scenario
	sc = append(sc, c12Scenario{"big/default", []genlab.File{{Path: "s.json", Content: space.Text(big)}}, []string{"s.json"}, genlab.Cfg{Package: "s", ResolveExt: []string{".json"}}})
	sc = append(sc, c12Scenario{"big/extra+sized", []genlab.File{{Path: "s.json", Content: space.Text(big)}}, []string{"s.json"}, genlab.Cfg{Package: "s", ResolveExt: []string{".json"}, ExtraImports: true, MinSizedInts: true}})
	// several files, packages and outputs, mappings given in several flags
	a := J{"$id": "https://example.com/a", "type": "object", "properties": J{"b": J{"$ref": "b.json"}, "c": J{"$ref": "sub/c.json#/$defs/CDef"}, "name": str}, "required": A{"b"}}
	b := J{"$id": "https://example.com/b", "type": "object", "properties": J{"v": in, "c": J{"$ref": "sub/c.json"}}}
	c := J{"$id": "https://example.com/c", "type": "object", "properties": J{"w": str}, "$defs": J{"CDef": J{"type": "object", "properties": J{"z": in}}}}
	multi := []genlab.File{{Path: "a.json", Content: space.Text(a)}, {Path: "b.json", Content: space.Text(b)}, {Path: "sub/c.json", Content: space.Text(c)}}
	maps := []genlab.Mapping{
		{ID: "https://example.com/a", Package: "example.com/m/pa", Output: "pa/a.go", Root: "RootA"},
		{ID: "https://example.com/b", Package: "example.com/m/pb", Output: "pb/b.go"},
		{ID: "https://example.com/c", Package: "example.com/m/pa", Output: "pa/c.go"},
	}
	sc = append(sc, c12Scenario{"multi/mapped", multi, []string{"a.json", "b.json", "sub/c.json"}, genlab.Cfg{Package: "dflt", ResolveExt: []string{".json"}, Mappings: maps}})
	sc = append(sc, c12Scenario{"multi/one-output", multi, []string{"sub/c.json", "a.json"}, genlab.Cfg{Package: "one", Output: "all.go", ResolveExt: []string{".json"}}})
	// names that collide after normalisation (case, separators): any order-sensitive tie-break shows here
	collide := J{"$id": "https://example.com/collide", "type": "object",
		"properties": J{"id": str, "ID": in, "Id": J{"type": "boolean"}, "a-b": str, "a_b": in, "aB": J{"type": "number"},
			"u": J{"$ref": "#/$defs/unit"}, "U": J{"$ref": "#/$defs/Unit"}},
		"$defs": J{"Unit": J{"type": "object", "properties": J{"upper": str}, "required": A{"upper"}}, "unit": J{"type": "object", "properties": J{"lower": in}},
			"UNIT": J{"type": "string", "enum": A{"x", "X"}}, "a-b": J{"type": "object", "properties": J{"dash": str}}, "a_b": J{"type": "object", "properties": J{"underscore": in}}}}
	sc = append(sc, c12Scenario{"collide", []genlab.File{{Path: "s.json", Content: space.Text(collide)}}, []string{"s.json"}, genlab.Cfg{Package: "s", ResolveExt: []string{".json"}}})
	// a reference cycle that returns to the entry file, whose root type has methods
	ca := J{"$id": "https://example.com/ca", "type": "object", "properties": J{"name": str, "b": J{"$ref": "cb.json"}}, "required": A{"name"}}
	cb := J{"$id": "https://example.com/cb", "type": "object", "properties": J{"v": in, "back": J{"$ref": "ca.json"}}, "required": A{"v"}}
	sc = append(sc, c12Scenario{"cycle-to-entry", []genlab.File{{Path: "ca.json", Content: space.Text(ca)}, {Path: "cb.json", Content: space.Text(cb)}}, []string{"ca.json"}, genlab.Cfg{Package: "s", ResolveExt: []string{".json"}}})
	// output names that are not in their shortest form, with several schema ids going to one file (the lookup of an already
	// started output and the order in which outputs are rendered meet here)
	sc = append(sc, c12Scenario{"multi/one-output-unclean-path", multi, []string{"sub/c.json", "a.json"}, genlab.Cfg{Package: "one", Output: "./out//all.go", ResolveExt: []string{".json"}}})
	sc = append(sc, c12Scenario{"multi/mapped-unclean-path", multi, []string{"a.json", "b.json", "sub/c.json"}, genlab.Cfg{Package: "dflt", ResolveExt: []string{".json"}, Mappings: []genlab.Mapping{
		{ID: "https://example.com/a", Package: "example.com/m/pa", Output: "./pa/ac.go", Root: "RootA"},
		{ID: "https://example.com/b", Package: "example.com/m/pa", Output: "./pa/ac.go"},
		{ID: "https://example.com/c", Package: "example.com/m/pa", Output: "./pa/ac.go"}}}})
	// several --resolve-extension values that compete for one name: one is a suffix of the other (root type name), and an
	// extension-less reference for which a file exists under each extension (the listed order decides)
	ord := J{"$id": "https://example.com/order", "type": "object", "properties": J{"id": str, "addr": J{"$ref": "address"}}, "required": A{"id"}}
	addrJ := J{"$id": "https://example.com/address-json", "type": "object", "properties": J{"fromJSON": str}}
	addrY := "$id: https://example.com/address-yaml\ntype: object\nproperties:\n  fromYAML: {type: integer}\n"
	sc = append(sc, c12Scenario{"resolve-extension/competing", []genlab.File{{Path: "order.schema.json", Content: space.Text(ord)}, {Path: "address.json", Content: space.Text(addrJ)}, {Path: "address.yaml", Content: addrY}, {Path: "address.schema.json", Content: space.Text(addrJ)}},
		[]string{"order.schema.json"}, genlab.Cfg{Package: "s", ResolveExt: []string{".json", ".schema.json", ".yaml", ".yml"}}})
	// mapping flags whose ids are near-miss spellings of one schema id (trailing '#', trailing '/', other letter case): whichever of them
	// select the schema, the selection must not depend on the order in which the flags' ids come out of a map
	{
		id := "https://example.com/schemas/person"
		person := J{"$id": id, "type": "object", "properties": J{"name": str, "age": in}, "required": A{"name"}}
		sc = append(sc, c12Scenario{"mapping-ids/near-miss-spellings", []genlab.File{{Path: "person.json", Content: space.Text(person)}}, []string{"person.json"},
			genlab.Cfg{Package: "example.com/m/dflt", ResolveExt: []string{".json"}, Mappings: []genlab.Mapping{
				{ID: id + "#", Package: "example.com/m/model", Root: "Human"}, {ID: id, Output: "out/person.go"}, {ID: id + "/", Root: "Slash", Output: "out/slash.go"},
				{ID: "HTTPS://EXAMPLE.COM/schemas/person", Root: "Upper", Output: "out/upper.go"}}}})
	}
	// one output file named by a relative and by an absolute spelling of its path in two mapping flags
	{
		oa := J{"$id": "https://example.com/oa", "type": "object", "properties": J{"a": str}}
		ob := J{"$id": "https://example.com/ob", "type": "object", "properties": J{"b": in}, "required": A{"b"}}
		sc = append(sc, c12Scenario{"output-relative-and-absolute", []genlab.File{{Path: "oa.json", Content: space.Text(oa)}, {Path: "ob.json", Content: space.Text(ob)}}, []string{"oa.json", "ob.json"},
			genlab.Cfg{Package: "example.com/m/p", ResolveExt: []string{".json"}, Mappings: []genlab.Mapping{
				{ID: "https://example.com/oa", Package: "example.com/m/p", Output: "gen/out.go"}, {ID: "https://example.com/ob", Package: "example.com/m/p", Output: "$PWD/gen/out.go"}}}})
	}
	// YAML input with many keys
	yml := "$id: https://example.com/y\ntype: object\nproperties:\n  one: {type: string}\n  two: {type: integer}\n  three:\n    type: object\n    properties:\n      k1: {type: string}\n      k2: {type: boolean}\n      k3: {type: number}\nrequired: [one, two]\ndefinitions:\n  D1: {type: object, properties: {a: {type: string}}}\n  D2: {type: object, properties: {b: {type: string}}}\n"
	sc = append(sc, c12Scenario{"yaml", []genlab.File{{Path: "s.yaml", Content: yml}}, []string{"s.yaml"}, genlab.Cfg{Package: "s", ResolveExt: []string{".yaml"}}})
	// the multi-file universes of C20 (reference graphs, directory layouts, one definition name / one reference text in several
	// documents) under its package / output mappings: every map the generator keeps per run (outputs, loaded schemas, declared
	// names) is populated from several documents here
	for _, u := range c20Universes(level) {
		for _, mp := range c20Mappings(level) {
			if level == 0 && mp.name != "two-packages" && mp.name != "own-files+root-type+unmapped" && mp.name != "package-only-for-third" {
				continue
			}
			if !c20MappingFits(u, mp) {
				continue
			}
			var args []string
			for _, f := range u.files {
				args = append(args, f.Path)
			}
			sc = append(sc, c12Scenario{"universe/" + u.name + "/" + mp.name, u.files, args, mp.cfg(u.ids)})
		}
	}
	if level >= 1 {
		// names that collide after normalisation, in every equality pattern of their contents
		for _, c := range collisionTriples("C12", func(i int) J {
			return J{"type": "object", "properties": J{"v": J{"type": "string", "minLength": i + 1}}, "required": A{"v"}}
		}, true) {
			sc = append(sc, c12Scenario{c.ID, []genlab.File{{Path: "s.json", Content: space.Text(c.Schema)}}, []string{"s.json"}, genlab.Cfg{Package: "s", ResolveExt: []string{".json"}}})
		}
		for _, c := range sameNamePairs("C12") {
			sc = append(sc, c12Scenario{c.ID, []genlab.File{{Path: "s.json", Content: space.Text(c.Schema)}}, []string{"s.json"}, genlab.Cfg{Package: "s", ResolveExt: []string{".json"}}})
		}
		for i, b := range c13Bases(0) {
			s := space.Clone(b.Schema)
			sc = append(sc, c12Scenario{fmt.Sprintf("base%02d/%s", i, b.ID), []genlab.File{{Path: "s.json", Content: space.Text(s)}}, []string{"s.json"}, genlab.Cfg{Package: "s", ResolveExt: []string{".json"}, ExtraImports: i%2 == 0}})
		}
		sc = append(sc, c12Scenario{"multi/default-out", multi, []string{"b.json", "a.json"}, genlab.Cfg{Package: "dflt", ResolveExt: []string{".json"}, ExtraImports: true}})
	}
	return sc
}

func resultKey(r *genlab.Resp) string {
	var sb strings.Builder
	switch {
	case r.Crash != "" || r.Hang:
		sb.WriteString("CRASH/HANG " + firstLine(r.Crash))
	case r.Res.Panic != "":
		sb.WriteString("PANIC " + firstLine(r.Res.Panic))
	case r.Res.Err != "":
		sb.WriteString("ERROR " + r.Res.Err)
	default:
		for _, n := range r.Res.OutputNames() {
			sb.WriteString("=== " + n + "\n" + r.Res.Outputs[n])
		}
	}
	return sb.String()
}

func devCount(s []int) int {
	n := 0
	for _, c := range s {
		if c != 0 {
			n++
		}
	}
	return n
}

func c12(ctx *Ctx) {
	if !genlab.Instrumented {
		harnessFail("C12 needs the instrumented build (bin/check C12 builds it)")
	}
	bound := 1
	if ctx.Level >= 1 {
		bound = 2
	}
	scen := c12Scenarios(ctx.Level)
	states, transitions, validated := 0, 0, 0
	siteSeen := map[string]int{}
	nonExhaustivePoints := 0
	maxPoints := 0
	for _, sc := range scen {
		gc := genlab.Case{ID: "C12/" + sc.name, Files: sc.files, Args: sc.args, Cfg: sc.cfg}
		// canonical run, twice (replay determinism)
		canon, err := ctx.Pool.RunAll([]genlab.Job{{Op: "gen", Case: &gc, KeepOutputs: true, UseSchedule: true}, {Op: "gen", Case: &gc, KeepOutputs: true, UseSchedule: true}})
		if err != nil {
			harnessFail("pool: %v", err)
		}
		ref := resultKey(canon[0])
		if resultKey(canon[1]) != ref || !sameTrace(canon[0].Trace, canon[1].Trace) {
			// every map iteration is under the scheduler's control, so a difference between two runs of the same schedule is
			// nondeterminism from another source (time, randomness, addresses): that is a violation of the property itself
			ctx.Run.Violation("nondeterministic-under-fixed-schedule", fmt.Sprintf("C12/%s: two runs with the same (canonical) map-iteration schedule differ: %s", sc.name, firstDiffLine(ref, resultKey(canon[1]))),
				map[string]any{"kind": "schedule", "files": sc.files, "args": sc.args, "cfg": sc.cfg, "schedule": []int{}, "first": ref, "second": resultKey(canon[1])})
			continue
		}
		states++
		transitions += 2
		if len(canon[0].Trace) > maxPoints {
			maxPoints = len(canon[0].Trace)
		}
		for _, p := range canon[0].Trace {
			siteSeen[p.Site]++
			if !p.Full {
				nonExhaustivePoints++
			}
		}
		// level-synchronous exploration of the schedule tree
		type node struct {
			sched []int
			trace []genlab.TracePoint
		}
		frontier := []node{{nil, canon[0].Trace}}
		for depth := 1; depth <= bound; depth++ {
			var jobs []genlab.Job
			var scheds [][]int
			for _, nd := range frontier {
				for i := len(nd.sched); i < len(nd.trace); i++ {
					for alt := 1; alt < nd.trace[i].Choices; alt++ {
						s := make([]int, i+1)
						copy(s, nd.sched)
						s[i] = alt
						c := gc
						jobs = append(jobs, genlab.Job{Op: "gen", Case: &c, KeepOutputs: true, UseSchedule: true, Schedule: s})
						scheds = append(scheds, s)
					}
				}
			}
			if len(jobs) == 0 {
				break
			}
			resps, err := ctx.Pool.RunAll(jobs)
			if err != nil {
				harnessFail("pool: %v", err)
			}
			var next []node
			for i, r := range resps {
				states++
				transitions++
				validated++
				s := scheds[i]
				ctx.Run.Eval(fmt.Sprintf("%s|%v", sc.name, s), true)
				ctx.Run.Count("inprocess_schedules", 1)
				// the prefix must replay: the trace up to the deviation equals the parent's
				if got := resultKey(r); got != ref {
					// confirm by replaying the same schedule twice
					c := gc
					again, _ := ctx.Pool.RunAll([]genlab.Job{{Op: "gen", Case: &c, KeepOutputs: true, UseSchedule: true, Schedule: s}})
					if len(again) == 1 && resultKey(again[0]) != got {
						ctx.Run.Violation("nondeterministic-under-fixed-schedule", fmt.Sprintf("C12/%s: two runs with the same map-iteration schedule %v differ", sc.name, s),
							map[string]any{"kind": "schedule", "files": sc.files, "args": sc.args, "cfg": sc.cfg, "schedule": s, "first": got, "second": resultKey(again[0])})
						continue
					}
					pt := "?"
					if j := len(s) - 1; j >= 0 && j < len(r.Trace) {
						pt = fmt.Sprintf("%s (n=%d, order #%d)", r.Trace[j].Site, r.Trace[j].N, s[j])
					}
					ctx.Run.Violation("schedule:"+siteOf(r.Trace, s), fmt.Sprintf("C12/%s: map-iteration schedule %v (last deviation at %s) changes the output: %s", sc.name, s, pt, firstDiffLine(ref, got)),
						map[string]any{"kind": "schedule", "files": sc.files, "args": sc.args, "cfg": sc.cfg, "schedule": s, "trace": r.Trace, "canonical": ref, "result": got})
					continue
				}
				if depth < bound {
					next = append(next, node{s, r.Trace})
				}
			}
			frontier = next
		}
		c12CLI(ctx, sc, &states, &transitions, &validated)
		c12KeyPerms(ctx, sc, gc, ref, &transitions, &validated)
		c12Locations(ctx, sc, &transitions, &validated)
	}
	ctx.Run.Cov["states"] = states
	ctx.Run.Cov["transitions"] = transitions
	ctx.Run.Cov["traces_validated_against_impl"] = validated
	ctx.Run.Cov["scenarios"] = len(scen)
	ctx.Run.Cov["preemption_bound(non-canonical orders per execution)"] = bound
	ctx.Run.Cov["choice_points_max_per_execution"] = maxPoints
	ctx.Run.Cov["sites_reached"] = siteSeen
	ctx.Run.Cov["choice_points_offering_a_subset_of_orders(n>5)"] = nonExhaustivePoints
	if b, err := os.ReadFile(os.Getenv("VERIF_SITES")); err == nil {
		ctx.Run.Cov["sites_instrumented"] = strings.Fields(string(b))
	}
	ctx.Run.Sample(map[string]any{"scenario": scen[0].name, "schedule": []int{0, 0, 3}, "meaning": "third map iteration of the run takes order #3 of its keys, all others the canonical (sorted) order"})
	ctx.Run.Assume("map iteration inside dependencies through reflect (mergo MapKeys, go-yaml, litter) is not scheduled; mergo merges keys independently, litter / go-cmp / encoding/json sort keys",
		"real runtime orders are a subset of the permutations explored; the property is judged against the language specification (order unspecified)",
		"every execution runs the real generator on the real files; the model (choice points) is the implementation itself, so every explored schedule is an implementation trace")
}

func sameTrace(a, b []genlab.TracePoint) bool {
	if len(a) != len(b) {
		return false
	}
	for i := range a {
		if a[i] != b[i] {
			return false
		}
	}
	return true
}

func siteOf(tr []genlab.TracePoint, s []int) string {
	if j := len(s) - 1; j >= 0 && j < len(tr) {
		return tr[j].Site
	}
	return "?"
}

// c12Subst replaces the placeholder $PWD in command-line arguments by the directory the tool is run in (an absolute spelling of a path
// below it).
func c12Subst(args []string, dir string) []string {
	out := make([]string, len(args))
	for i, a := range args {
		out[i] = strings.ReplaceAll(a, "$PWD", dir)
	}
	return out
}

// c12CLI explores main.go's map iterations in the instrumented binary (subprocess backend).
func c12CLI(ctx *Ctx, sc c12Scenario, states, transitions, validated *int) {
	bin := filepath.Join(ws.Root(), "gojsonschema-sched")
	run := func(sched []int) (string, []genlab.TracePoint, genlab.CLIResult) {
		d, _ := os.MkdirTemp(ws.Dir("c12cli"), "r")
		defer os.RemoveAll(d)
		genlab.Materialise(d, sc.files)
		tf := filepath.Join(ws.Dir("c12cli"), filepath.Base(d)+".trace")
		defer os.Remove(tf)
		var ss []string
		for _, c := range sched {
			ss = append(ss, fmt.Sprint(c))
		}
		os.Setenv("VERIF_SCHEDULE", strings.Join(ss, ","))
		os.Setenv("VERIF_TRACE", tf)
		r := genlab.RunCLI(bin, d, c12Subst(append(sc.cfg.Flags(), sc.args...), d), "", 60*time.Second)
		os.Unsetenv("VERIF_SCHEDULE")
		os.Unsetenv("VERIF_TRACE")
		var tr []genlab.TracePoint
		if b, err := os.ReadFile(tf); err == nil {
			for _, l := range strings.Split(strings.TrimSpace(string(b)), "\n") {
				var p genlab.TracePoint
				if n, _ := fmt.Sscanf(l, "%s %d %d %t", &p.Site, &p.N, &p.Choices, &p.Full); n == 4 {
					tr = append(tr, p)
				}
			}
		}
		var sb strings.Builder
		fmt.Fprintf(&sb, "exit=%d\nstdout:\n%s\n", r.Exit, r.Stdout)
		for _, n := range genlab.TreeNames(r.Files) {
			in := false
			for _, f := range sc.files {
				if f.Path == n {
					in = true
				}
			}
			if !in {
				sb.WriteString("=== " + n + "\n" + r.Files[n])
			}
		}
		return sb.String(), tr, r
	}
	ref, tr, r0 := run(nil)
	if r0.Exit != 0 {
		ctx.Run.Count("cli_scenarios_failing(C18)", 1)
	}
	*states++
	*transitions++
	for i := range tr {
		if !strings.HasPrefix(tr[i].Site, "main.go") {
			continue // library sites are explored in-process
		}
		for alt := 1; alt < tr[i].Choices; alt++ {
			s := make([]int, i+1)
			s[i] = alt
			got, _, _ := run(s)
			*states++
			*transitions++
			*validated++
			ctx.Run.Eval(fmt.Sprintf("cli|%s|%v", sc.name, s), true)
			ctx.Run.Count("cli_schedules:"+tr[i].Site, 1)
			if got != ref {
				again, _, _ := run(s)
				if again != got {
					ctx.Run.Violation("nondeterministic-under-fixed-schedule", fmt.Sprintf("C12/%s: two CLI runs with the same map-iteration schedule %v differ", sc.name, s),
						map[string]any{"kind": "schedule-cli", "files": sc.files, "args": append(sc.cfg.Flags(), sc.args...), "schedule": s, "first": got, "second": again})
					continue
				}
				ctx.Run.Violation("schedule-cli:"+tr[i].Site, fmt.Sprintf("C12/%s: in the CLI, map-iteration schedule %v (deviation at %s, n=%d, order #%d) changes what is written: %s", sc.name, s, tr[i].Site, tr[i].N, alt, firstDiffLine(ref, got)),
					map[string]any{"kind": "schedule-cli", "files": sc.files, "args": append(sc.cfg.Flags(), sc.args...), "schedule": s, "canonical": ref, "result": got})
			}
		}
	}
}

// orderedJSON renders v with object keys in the order chosen by pick (path -> permutation of sorted keys).
func orderedJSON(v any, path string, pick func(path string, keys []string) []string, buf *bytes.Buffer) {
	switch x := v.(type) {
	case map[string]any:
		keys := space.SortedKeys(x)
		keys = pick(path, keys)
		buf.WriteByte('{')
		for i, k := range keys {
			if i > 0 {
				buf.WriteByte(',')
			}
			kb, _ := json.Marshal(k)
			buf.Write(kb)
			buf.WriteByte(':')
			orderedJSON(x[k], path+"/"+k, pick, buf)
		}
		buf.WriteByte('}')
	case []any:
		buf.WriteByte('[')
		for i, e := range x {
			if i > 0 {
				buf.WriteByte(',')
			}
			orderedJSON(e, fmt.Sprintf("%s/%d", path, i), pick, buf)
		}
		buf.WriteByte(']')
	default:
		b, _ := json.Marshal(x)
		buf.Write(b)
	}
}

func permsOf(n int) [][]int {
	var out [][]int
	if n <= 4 {
		var rec func(cur []int, used []bool)
		rec = func(cur []int, used []bool) {
			if len(cur) == n {
				out = append(out, append([]int(nil), cur...))
				return
			}
			for i := 0; i < n; i++ {
				if !used[i] {
					used[i] = true
					rec(append(cur, i), used)
					used[i] = false
				}
			}
		}
		rec(nil, make([]bool, n))
		return out[1:] // without identity
	}
	for r := 1; r < n; r++ {
		p := make([]int, n)
		for i := range p {
			p[i] = (i + r) % n
		}
		out = append(out, p)
	}
	for j := 0; j+1 < n; j++ {
		p := make([]int, n)
		for i := range p {
			p[i] = i
		}
		p[j], p[j+1] = p[j+1], p[j]
		out = append(out, p)
	}
	p := make([]int, n)
	for i := range p {
		p[i] = n - 1 - i
	}
	return append(out, p)
}

// c12KeyPerms permutes the keys of every JSON object of every JSON input file, one object at a time.
func c12KeyPerms(ctx *Ctx, sc c12Scenario, gc genlab.Case, ref string, transitions, validated *int) {
	var jobs []genlab.Job
	var descr []string
	for fi, f := range sc.files {
		if !strings.HasSuffix(f.Path, ".json") {
			continue
		}
		var tree any
		if err := json.Unmarshal([]byte(f.Content), &tree); err != nil {
			continue
		}
		// collect object paths
		var paths []string
		sizes := map[string]int{}
		var walk func(v any, p string)
		walk = func(v any, p string) {
			switch x := v.(type) {
			case map[string]any:
				if len(x) >= 2 {
					paths = append(paths, p)
					sizes[p] = len(x)
				}
				for _, k := range space.SortedKeys(x) {
					walk(x[k], p+"/"+k)
				}
			case []any:
				for i, e := range x {
					walk(e, fmt.Sprintf("%s/%d", p, i))
				}
			}
		}
		walk(tree, "")
		sort.Strings(paths)
		for _, op := range paths {
			for pi, perm := range permsOf(sizes[op]) {
				var buf bytes.Buffer
				orderedJSON(tree, "", func(p string, keys []string) []string {
					if p != op {
						return keys
					}
					o := make([]string, len(keys))
					for i, j := range perm {
						o[i] = keys[j]
					}
					return o
				}, &buf)
				c := gc
				c.Files = append([]genlab.File(nil), gc.Files...)
				c.Files[fi] = genlab.File{Path: f.Path, Content: buf.String()}
				jobs = append(jobs, genlab.Job{Op: "gen", Case: &c, KeepOutputs: true, UseSchedule: true})
				descr = append(descr, fmt.Sprintf("%s: object at %q, key order #%d", f.Path, op, pi+1))
			}
		}
	}
	if len(jobs) == 0 {
		return
	}
	resps, err := ctx.Pool.RunAll(jobs)
	if err != nil {
		harnessFail("pool: %v", err)
	}
	for i, r := range resps {
		*transitions++
		*validated++
		ctx.Run.Eval("keyperm|"+sc.name+"|"+descr[i], true)
		ctx.Run.Count("key_permutations", 1)
		if got := resultKey(r); got != ref {
			ctx.Run.Violation("key-order", fmt.Sprintf("C12/%s: permuting the keys of one JSON object of the input (%s) changes the output: %s", sc.name, descr[i], firstDiffLine(ref, got)),
				map[string]any{"kind": "gen", "files": jobs[i].Case.Files, "args": sc.args, "cfg": sc.cfg, "canonical": ref, "result": got})
		}
	}
}

// c12Locations: the uninstrumented binary, three separate processes, three absolute locations, and by relative path.
func c12Locations(ctx *Ctx, sc c12Scenario, transitions, validated *int) {
	bin, err := ws.CLI()
	if err != nil {
		harnessFail("cannot build the CLI: %v", err)
	}
	type loc struct {
		dir      string
		absolute bool
		spell    func(dir, a string) string // spelling of an argument path
	}
	root := ws.Dir("c12loc")
	plain := func(dir, a string) string { return a }
	abs := func(dir, a string) string { return filepath.Join(dir, a) }
	locs := []loc{{filepath.Join(root, "a"), false, plain}, {filepath.Join(root, "deeper", "nested", "b"), true, abs}, {filepath.Join(root, "x y", "c"), true, abs}, {filepath.Join(root, "a"), false, plain},
		{filepath.Join(root, "d"), false, func(dir, a string) string { return "./" + a }},
		{filepath.Join(root, "e"), false, func(dir, a string) string { return "updir/../" + a }},
		{filepath.Join(root, "f"), true, func(dir, a string) string { return dir + "/./" + a }},
		{filepath.Join(root, "g"), true, func(dir, a string) string { return dir + "//" + a }},
		{filepath.Join(root, "h"), false, func(dir, a string) string { return "../h/" + a }},
		// directory names with characters that mean something in a URL, the schema files reached by relative arguments
		{filepath.Join(root, "issue#42", "i"), false, plain}, {filepath.Join(root, "really?", "nested", "j"), false, plain}, {filepath.Join(root, "a&b=c", "k"), false, plain},
		// ... and by absolute arguments
		{filepath.Join(root, "issue#43", "l"), true, abs}, {filepath.Join(root, "really?", "m"), true, abs}}
	var ref string
	for i, l := range locs {
		os.RemoveAll(l.dir)
		genlab.Materialise(l.dir, sc.files)
		os.MkdirAll(filepath.Join(l.dir, "updir"), 0o755)
		args := append([]string{}, sc.cfg.Flags()...)
		for _, a := range sc.args {
			args = append(args, l.spell(l.dir, a))
		}
		args = c12Subst(args, l.dir)
		r := genlab.RunCLI(bin, l.dir, args, "", 60*time.Second)
		var sb strings.Builder
		fmt.Fprintf(&sb, "exit=%d\nstdout:\n%s\n", r.Exit, r.Stdout)
		for _, n := range genlab.TreeNames(r.Files) {
			in := false
			for _, f := range sc.files {
				if f.Path == n {
					in = true
				}
			}
			if !in {
				sb.WriteString("=== " + n + "\n" + r.Files[n])
			}
		}
		got := strings.ReplaceAll(sb.String(), l.dir, "$DIR")
		*transitions++
		*validated++
		ctx.Run.Eval(fmt.Sprintf("loc|%s|%d", sc.name, i), i > 0)
		ctx.Run.Count("separate_process_runs", 1)
		if i == 0 {
			ref = got
		} else if got != ref {
			ctx.Run.Violation("location-or-process", fmt.Sprintf("C12/%s: run %d (directory %q, arguments %q, separate process) differs from run 0: %s", sc.name, i, l.dir, args, firstDiffLine(ref, got)),
				map[string]any{"kind": "cli", "files": sc.files, "args": args, "dir": l.dir, "reference": ref, "result": got})
		}
		os.RemoveAll(l.dir)
	}
	// a repeated run into the same place: every output file of the first run exists already and holds a longer, stale text
	// (what is left on disk by an earlier run must not show in the result); only for scenarios that write files
	{
		l := locs[0]
		os.RemoveAll(l.dir)
		genlab.Materialise(l.dir, sc.files)
		os.MkdirAll(filepath.Join(l.dir, "updir"), 0o755)
		args := c12Subst(append(append([]string{}, sc.cfg.Flags()...), sc.args...), l.dir)
		first := genlab.RunCLI(bin, l.dir, args, "", 60*time.Second)
		outs := 0
		for _, n := range genlab.TreeNames(first.Files) {
			in := n == "updir"
			for _, f := range sc.files {
				if f.Path == n {
					in = true
				}
			}
			if !in {
				outs++
				os.WriteFile(filepath.Join(l.dir, n), []byte(first.Files[n]+strings.Repeat("// stale line of an earlier, longer output\n", 200)), 0o644)
			}
		}
		if outs > 0 && first.Exit == 0 {
			r := genlab.RunCLI(bin, l.dir, args, "", 60*time.Second)
			var sb strings.Builder
			fmt.Fprintf(&sb, "exit=%d\nstdout:\n%s\n", r.Exit, r.Stdout)
			for _, n := range genlab.TreeNames(r.Files) {
				in := false
				for _, f := range sc.files {
					if f.Path == n {
						in = true
					}
				}
				if !in {
					sb.WriteString("=== " + n + "\n" + r.Files[n])
				}
			}
			got := strings.ReplaceAll(sb.String(), l.dir, "$DIR")
			*transitions++
			*validated++
			ctx.Run.Eval(fmt.Sprintf("loc|%s|rerun-in-place", sc.name), true)
			ctx.Run.Count("separate_process_runs", 1)
			ctx.Run.Count("reruns_over_longer_stale_outputs", 1)
			if got != ref {
				ctx.Run.Violation("rerun-in-place", fmt.Sprintf("C12/%s: a second run over its own, longer, earlier outputs (arguments %q) differs from a run into an empty directory: %s", sc.name, args, firstDiffLine(ref, got)),
					map[string]any{"kind": "cli", "files": sc.files, "args": args, "dir": l.dir, "reference": ref, "result": got})
			}
		}
		os.RemoveAll(l.dir)
	}
}

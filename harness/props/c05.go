package props

import (
	"fmt"
	"math/big"

	"github.com/atombender/go-jsonschema/pkg/mathutils"

	"verif/internal/refmodel"
	"verif/internal/space"
)

func init() {
	register("C05", "exploration", c05)
	ruleText["C05"] = "part A: NormalizeBounds is called on every combination of minimum/maximum/exclusiveMinimum/exclusiveMaximum (absent, boolean, numeric over a grid) and its result must admit exactly the intersection of the stated bounds on every probe value; " +
		"part B: every subset of the five numeric keywords over a constant grid x {integer, number} x {required, optional, nullable, named definition, root} is generated, compiled with the real toolchain and fed every value on, next to and between the bounds, multiples and non-multiples, absent and null; verdicts are compared with the exact-rational reference model; " +
		"non-trivial = a document that differs from the base document; distinct = (emitted source hash, document)"
}

var c05Devs = []string{"NULLABLE_DEF_UNENFORCED", "FLOAT_MULTIPLEOF_TOLERANCE", "INT_BOUND_TRUNCATED", "ENUM_SIBLING_CONSTRAINTS_IGNORED", "INT_MULTIPLEOF_TRUNCATED"}

func c05(ctx *Ctx) {
	c05PartA(ctx)
	runBehaviour(ctx, behaviour{Name: "num", Cases: c05Cases(ctx.Level), K: 1, Devs: c05Devs})
	ctx.Run.Assume("null at a required non-nullable position, integral numbers spelled with fraction/exponent, integers outside int64 and non-finite float64 are outside the statement and not judged",
		"trusted: Go toolchain, encoding/json, the reference model (exact rationals)")
}

func c05PartA(ctx *Ctx) {
	grid := []float64{0, 1, 2, 3}
	type opt struct {
		set bool
		v   float64
	}
	var nums []opt
	nums = append(nums, opt{})
	for _, g := range grid {
		nums = append(nums, opt{true, g})
	}
	type ex struct {
		kind int // 0 absent, 1 bool, 2 number
		b    bool
		v    float64
	}
	exs := []ex{{}, {1, true, 0}, {1, false, 0}}
	for _, g := range grid {
		exs = append(exs, ex{2, false, g})
	}
	var probes []*big.Rat
	for i := -1; i <= 7; i++ {
		probes = append(probes, big.NewRat(int64(i), 2))
	}
	n := 0
	for _, mn := range nums {
		for _, mx := range nums {
			for _, emn := range exs {
				for _, emx := range exs {
					var pmin, pmax *float64
					var pemin, pemax *any
					if mn.set {
						v := mn.v
						pmin = &v
					}
					if mx.set {
						v := mx.v
						pmax = &v
					}
					mk := func(e ex) *any {
						switch e.kind {
						case 1:
							var a any = e.b
							return &a
						case 2:
							var a any = e.v
							return &a
						}
						return nil
					}
					pemin, pemax = mk(emn), mk(emx)
					rmin, rmax, rexmin, rexmax := mathutils.NormalizeBounds(pmin, pmax, pemin, pemax)
					n++
					id := fmt.Sprintf("normalize/min=%v/max=%v/exmin=%v/exmax=%v", mn, mx, emn, emx)
					for _, x := range probes {
						// stated bounds
						want := true
						if mn.set {
							c := x.Cmp(new(big.Rat).SetFloat64(mn.v))
							if c < 0 || (c == 0 && emn.kind == 1 && emn.b) {
								want = false
							}
						}
						if mx.set {
							c := x.Cmp(new(big.Rat).SetFloat64(mx.v))
							if c > 0 || (c == 0 && emx.kind == 1 && emx.b) {
								want = false
							}
						}
						if emn.kind == 2 && x.Cmp(new(big.Rat).SetFloat64(emn.v)) <= 0 {
							want = false
						}
						if emx.kind == 2 && x.Cmp(new(big.Rat).SetFloat64(emx.v)) >= 0 {
							want = false
						}
						got := true
						if rmin != nil {
							c := x.Cmp(new(big.Rat).SetFloat64(*rmin))
							if c < 0 || (c == 0 && rexmin) {
								got = false
							}
						}
						if rmax != nil {
							c := x.Cmp(new(big.Rat).SetFloat64(*rmax))
							if c > 0 || (c == 0 && rexmax) {
								got = false
							}
						}
						ctx.Run.Eval(id+"/x="+x.RatString(), true)
						if want != got {
							ctx.Run.Violation("normalize-bounds", fmt.Sprintf("%s: x=%s stated bounds say accept=%v, normalised bounds say accept=%v", id, x.RatString(), want, got),
								map[string]any{"kind": "normalize", "minimum": mn, "maximum": mx, "exclusiveMinimum": emn, "exclusiveMaximum": emx, "x": x.RatString()})
						}
					}
				}
			}
		}
	}
	ctx.Run.Count("normalize_bounds_combinations", n)
}

func c05Cases(level int) []SCase {
	var out []SCase
	type kw struct {
		k string
		v any
	}
	for _, typ := range []string{"integer", "number"} {
		mins := []any{nil, 2}
		maxs := []any{nil, 6}
		exmins := []any{nil, true, 2, 3}
		exmaxs := []any{nil, true, 6, 5}
		mults := []any{nil, 2}
		if typ == "number" {
			mults = []any{nil, 0.5}
			mins = []any{nil, 2.5}
			exmins = []any{nil, true, 2.5, 3}
		}
		if level >= 1 {
			mins = append(mins, 0, -3)
			maxs = append(maxs, 0, 5)
			exmins = append(exmins, false, 1, -3)
			exmaxs = append(exmaxs, false, 7)
			if typ == "number" {
				mults = append(mults, 1.5, 0.1)
			} else {
				mults = append(mults, 3)
			}
		}
		for _, mn := range mins {
			for _, mx := range maxs {
				for _, emn := range exmins {
					for _, emx := range exmaxs {
						for _, mo := range mults {
							l := J{"type": typ}
							name := typ
							for _, p := range []kw{{"minimum", mn}, {"maximum", mx}, {"exclusiveMinimum", emn}, {"exclusiveMaximum", emx}, {"multipleOf", mo}} {
								if p.v != nil {
									l[p.k] = p.v
									name += fmt.Sprintf(",%s=%v", p.k, p.v)
								}
							}
							if len(l) == 1 {
								continue
							}
							nl := space.MakeNullable(l, 0)
							nl2 := space.MakeNullable(l, 1)
							root := J{"type": "object",
								"properties": J{"r": l, "o": l, "no": nl, "nr": nl2},
								"required":   A{"r", "nr"}}
							out = append(out, SCase{ID: "C05/props/" + name, Schema: root, Cfg: baseCfg(), Axes: map[string]string{"pos": "props", "leaf": name}})
							def := J{"type": "object",
								"properties": J{"d": J{"$ref": "#/$defs/D"}, "do": J{"$ref": "#/$defs/D"}, "dn": J{"$ref": "#/$defs/DN"}},
								"required":   A{"d"},
								"$defs":      J{"D": l, "DN": nl}}
							out = append(out, SCase{ID: "C05/def/" + name, Schema: def, Cfg: baseCfg(), Axes: map[string]string{"pos": "def", "leaf": name}})
							out = append(out, SCase{ID: "C05/root/" + name, Schema: space.Clone(l), Cfg: baseCfg(), Axes: map[string]string{"pos": "root", "leaf": name}})
							// the same number as an optional property with a default (a valid value chosen by the reference model): the field
							// then is not a pointer, and an absent or null value still must not be bound-checked (its zero value may violate the bounds)
							if lm, err := refmodel.New(map[string]string{"s.json": space.Text(l)}, "s.json"); err == nil {
								if ds := lm.Docs(1); len(ds) > 0 && lm.Valid(ds[0].V) == refmodel.Accept && asBuiltAccepts(lm, ds[0].V, c05Devs) {
									ld := space.Clone(l)
									ld["default"] = ds[0].V
									out = append(out, SCase{ID: "C05/default/" + name, Cfg: baseCfg(), Axes: map[string]string{"pos": "default", "leaf": name},
										Schema: J{"type": "object", "properties": J{"k": J{"type": "string"}, "od": ld}}})
								}
							}
							if typ == "integer" {
								// the same integer schemas under --min-sized-ints: the option rewrites bounds while choosing the type
								sz := baseCfg()
								sz.MinSizedInts = true
								out = append(out, SCase{ID: "C05/props/" + name + "/sized", Schema: space.Clone(root), Cfg: sz, Axes: map[string]string{"pos": "props", "leaf": name + "/sized"}})
								out = append(out, SCase{ID: "C05/def/" + name + "/sized", Schema: space.Clone(def), Cfg: sz, Axes: map[string]string{"pos": "def", "leaf": name + "/sized"}})
							}
						}
					}
				}
			}
		}
	}
	// special divisors, alone and next to bounds: 1 (a no-op for integers, "integral" for numbers), integer-valued divisors on numbers,
	// a divisor below 1, a divisor larger than the range
	for _, typ := range []string{"integer", "number"} {
		mults := []any{1, 3, 10}
		if typ == "number" {
			mults = []any{1, 2, 0.25, 10}
		}
		for _, mo := range mults {
			for bi, b := range []J{{}, {"minimum": -6, "maximum": 6}, {"exclusiveMinimum": 0}} {
				if level == 0 && bi == 2 {
					continue
				}
				l := J{"type": typ, "multipleOf": mo}
				name := fmt.Sprintf("%s-divisor,multipleOf=%v", typ, mo)
				for _, k := range space.SortedKeys(b) {
					l[k] = b[k]
					name += fmt.Sprintf(",%s=%v", k, b[k])
				}
				nl := space.MakeNullable(l, 0)
				out = append(out, SCase{ID: "C05/props/" + name, Cfg: baseCfg(), Axes: map[string]string{"pos": "props", "leaf": name},
					Schema: J{"type": "object", "properties": J{"r": l, "o": l, "no": nl}, "required": A{"r"}}})
				out = append(out, SCase{ID: "C05/def/" + name, Cfg: baseCfg(), Axes: map[string]string{"pos": "def", "leaf": name},
					Schema: J{"type": "object", "properties": J{"d": J{"$ref": "#/$defs/D"}, "dn": J{"$ref": "#/$defs/DN"}}, "required": A{"d"}, "$defs": J{"D": l, "DN": nl}}})
				out = append(out, SCase{ID: "C05/root/" + name, Schema: space.Clone(l), Cfg: baseCfg(), Axes: map[string]string{"pos": "root", "leaf": name}})
			}
		}
	}
	// bounds / divisor stated next to an enum: a listed value outside them is not valid; a divisor of an integer that is not itself integral
	for _, eb := range []struct {
		name string
		l    J
	}{
		{"integer-enum,minimum=2", J{"type": "integer", "enum": A{1, 2, 3}, "minimum": 2}},
		{"integer-enum,exclusiveMaximum=3", J{"type": "integer", "enum": A{1, 2, 3}, "exclusiveMaximum": 3}},
		{"integer-enum,multipleOf=2", J{"type": "integer", "enum": A{2, 4, 5}, "multipleOf": 2}},
		{"number-enum,maximum=2", J{"type": "number", "enum": A{0.5, 1.5, 2.5}, "maximum": 2}},
		{"integer-fractional-divisor,multipleOf=2.5", J{"type": "integer", "multipleOf": 2.5}},
		{"integer-fractional-divisor,multipleOf=1.5,minimum=0,maximum=12", J{"type": "integer", "multipleOf": 1.5, "minimum": 0, "maximum": 12}},
	} {
		l := eb.l
		out = append(out, SCase{ID: "C05/props/" + eb.name, Cfg: baseCfg(), Axes: map[string]string{"pos": "props", "leaf": eb.name},
			Schema: J{"type": "object", "properties": J{"r": l, "o": l}, "required": A{"r"}}})
		out = append(out, SCase{ID: "C05/def/" + eb.name, Cfg: baseCfg(), Axes: map[string]string{"pos": "def", "leaf": eb.name},
			Schema: J{"type": "object", "properties": J{"d": J{"$ref": "#/$defs/D"}, "do": J{"$ref": "#/$defs/D"}}, "required": A{"d"}, "$defs": J{"D": l}}})
	}
	// fractional bounds on integers (a handful: the current implementation truncates them, listed finding INT_BOUND_TRUNCATED)
	for _, fb := range []J{{"minimum": 1.5}, {"maximum": 7.5}, {"minimum": 1.5, "maximum": 7.5}, {"minimum": -4.5, "maximum": -1.5}, {"exclusiveMinimum": 1.5}, {"exclusiveMaximum": 7.5},
		{"minimum": 1.5, "exclusiveMinimum": true}, {"maximum": 7.5, "exclusiveMaximum": true}, {"minimum": -4.5, "exclusiveMinimum": true, "maximum": 7.5, "exclusiveMaximum": true}} {
		l := J{"type": "integer"}
		name := "integer-fractional"
		for _, k := range space.SortedKeys(fb) {
			l[k] = fb[k]
			name += fmt.Sprintf(",%s=%v", k, fb[k])
		}
		out = append(out, SCase{ID: "C05/props/" + name, Cfg: baseCfg(), Axes: map[string]string{"pos": "props", "leaf": name},
			Schema: J{"type": "object", "properties": J{"r": l, "o": l, "no": space.MakeNullable(l, 0)}, "required": A{"r"}}})
		out = append(out, SCase{ID: "C05/def/" + name, Cfg: baseCfg(), Axes: map[string]string{"pos": "def", "leaf": name},
			Schema: J{"type": "object", "properties": J{"d": J{"$ref": "#/$defs/D"}}, "required": A{"d"}, "$defs": J{"D": l}}})
	}
	return out
}

// asBuiltAccepts: the value is also accepted under the listed deviations (a default that one of the known defects rejects - 0.3 for
// multipleOf 0.1 - would bring that finding into the default position through the back door).
func asBuiltAccepts(m *refmodel.Model, v any, devs []string) bool {
	m.Dev = map[string]bool{}
	for _, d := range devs {
		m.Dev[d] = true
	}
	defer func() { m.Dev = map[string]bool{} }()
	return m.Valid(v) == refmodel.Accept
}

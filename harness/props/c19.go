package props

import (
	"fmt"
	"strings"

	"verif/drv"
	"verif/internal/batch"
	"verif/internal/genlab"
	"verif/internal/refmodel"
	"verif/internal/space"
)

func init() {
	register("C19", "exploration", c19)
	ruleText["C19"] = "every generated type that has an UnmarshalJSON (and, with --extra-imports, UnmarshalYAML) method in the programs of the C04, C06, C07, C08, C09 and C11 families (found by AST) x inputs = generic JSON values of bounded shape (null, booleans, numbers incl. 1e400 and a 20-digit integer, strings, arrays and objects of depth <= 3), every enumerated document of the program (valid and wrong-shape at every position), every proper prefix and every single-byte substitution (6-byte alphabet) of the base document, empty / blank input, invalid UTF-8, duplicate keys, 10001-deep nesting x prior destination in {zero value, value decoded from each of the first two documents the type accepts}; " +
		"oracle = the method, called directly, returns (a panic is a violation) and, when it returns an error, the destination is deeply equal to an independently re-decoded copy of the prior value; non-trivial = every call; distinct = (source hash, type, input, prior)"
}

var c19Generic = []string{
	`null`, `true`, `false`, `0`, `1`, `-1`, `1.5`, `1e400`, `12345678901234567890`, `-0`, `1e-7`, `""`, `"x"`, `"\u0000"`, `[]`, `[1]`, `["x"]`, `[null]`, `[[]]`, `[{}]`, `[[1],["x"]]`,
	`{}`, `{"k":1}`, `{"a":1,"b":"x"}`, `{"a":null}`, `{"a":{"a":{"a":1}}}`, `{"a":[{"a":[1]}]}`, `{"a":[],"b":{}}`, `{"k":{"k":"x"}}`, `[{"a":1},{"b":[2]}]`,
	``, ` `, "\n\t ", "\xff", "\"\xff\"", `{"a":1,"a":2}`, `{"a":1}{"a":2}`, `{"a":1} x`, `nul`, `tru`, `{`, `[`, `"`, `{"a"`, `{"a":`, `{"a":1,`, `[1,`, `01`, `1.`, `+1`, `{'a':1}`, `{a:1}`, `[1 2]`, "\ufeff{}",
}

func c19Inputs(m *refmodel.Model) []string {
	var in []string
	seen := map[string]bool{}
	add := func(s string) {
		if !seen[s] {
			seen[s] = true
			in = append(in, s)
		}
	}
	docs := m.Docs(1)
	for _, d := range docs {
		add(d.Text)
	}
	for _, g := range c19Generic {
		add(g)
	}
	if len(docs) > 0 {
		base := docs[0].Text
		for i := 0; i < len(base); i++ {
			add(base[:i])
		}
		for i := 0; i < len(base); i++ {
			for _, c := range []byte{'"', '{', '[', '0', 'x', ' '} {
				if base[i] != c {
					add(base[:i] + string(c) + base[i+1:])
				}
			}
		}
		// every single-byte deletion and every single-byte duplication (strings, numbers and arrays one element shorter / longer
		// than any valid sample: length-keyed slicing in hand-written decoders shows here)
		for i := 0; i < len(base); i++ {
			add(base[:i] + base[i+1:])
			add(base[:i+1] + base[i:])
		}
		// duplicate keys: the base object with its first member repeated with another value
		if strings.HasPrefix(base, `{"`) && len(base) > 2 {
			if j := strings.Index(base, `":`); j > 0 {
				add(base[:len(base)-1] + `,` + base[1:j+2] + `null}`)
				add(base[:len(base)-1] + `,` + base[1:j+2] + `[[]]}`)
			}
		}
	}
	return in
}

var c19Deep = []string{
	strings.Repeat("[", 10001) + strings.Repeat("]", 10001),
	strings.Repeat(`{"a":`, 10001) + "1" + strings.Repeat("}", 10001),
}

var c19Rules = []struct {
	name string
	pred func(b drv.Bad, input, prior string) bool
}{
	// a property name with a comma becomes `yaml:"a,b,omitempty"`: yaml.v3 panics on the unknown option / on the doubled key when it first
	// looks at the struct type (KF-C14-1 is the same name problem seen from the binding side)
	{"TAG_OPTION_NAME_PANICS_YAML", func(b drv.Bad, input, prior string) bool {
		return (strings.Contains(b.Panic, "unsupported flag") && strings.Contains(b.Panic, "in tag")) || (strings.Contains(b.Panic, "duplicated key") && strings.Contains(b.Panic, "in struct"))
	}},
	{"NULL_TO_ADDL_STRUCT_ERRORS", func(b drv.Bad, input, prior string) bool {
		t := strings.TrimSpace(input)
		return (strings.Contains(t, "null") || t == "" || t == "~") && strings.Contains(b.Panic, "reflect.Set: value of type map[string]interface {} is not assignable to type map[string]")
	}},
}

func c19Cases(level int) []SCase {
	var cases []SCase
	add := func(cs []SCase, every int) {
		for i, c := range cs {
			if i%every == 0 {
				cases = append(cases, c)
			}
		}
	}
	q := 1
	if level == 0 {
		q = 4
	}
	add(c06Cases(level), q)
	add(c07Cases(0), q)
	e, _ := c08Cases(level)
	add(e, q/2+1)
	add(c09Cases(level), q/2+1)
	for _, sc := range leafFamily(level) {
		if sc.Axes["default"] == "true" {
			continue
		}
		if level == 0 && (sc.Axes["nullable"] == "true" && sc.Axes["required"] == "false" || sc.Axes["pos"] == "nested") {
			continue
		}
		sc.ID = "C19/" + sc.ID
		cases = append(cases, sc)
	}
	// object / map schemas that are allOf / anyOf branches themselves (such types get unmarshalers even when they are maps)
	for _, pos := range space.Positions(1) {
		if pos.Name != "anyof-branch" && pos.Name != "allof-branch" && pos.Name != "anyof-branch-closed" {
			continue
		}
		for _, l := range space.Leaves(level) {
			if l.Kind != "object" && l.Kind != "map" {
				continue
			}
			cases = append(cases, SCase{ID: "C19/" + pos.Name + "/" + l.Name, Schema: pos.Wrap(space.Clone(l.S), true), Cfg: baseCfg(), Axes: map[string]string{"pos": pos.Name, "leaf": l.Name}})
		}
	}
	if level >= 1 {
		add(c05Cases(0), 3)
	}
	// property names that the struct-tag syntax of the decoders interprets (a comma starts the option list): whatever becomes of the
	// binding (C14), the methods must still return
	for _, n := range []string{"a,b", "x,string", "k,omitempty,flow", "sp ace", "quo'te"} {
		for _, extra := range []bool{false, true} {
			cfg := baseCfg()
			cfg.ExtraImports = extra
			cases = append(cases, SCase{ID: fmt.Sprintf("C19/tag-option-name/%q/extra=%v", n, extra), Cfg: cfg, Axes: map[string]string{"pos": "tag-option-name", "leaf": n},
				Schema: J{"type": "object", "properties": J{n: J{"type": "string"}, "k": J{"type": "string", "minLength": 1}}, "required": A{"k"}}})
		}
	}
	// a definition called like the helper type the generated methods declare locally (Plain), as a struct, as a map and as a property-less
	// object, next to an object whose catch-all block names that helper type; with and without the YAML methods
	for _, n := range []string{"plain", "Plain"} {
		for pi, pd := range []J{{"type": "object", "properties": J{"k": J{"type": "string", "minLength": 1}}, "required": A{"k"}},
			{"type": "object", "additionalProperties": J{"type": "string"}}, {"type": "object"}} {
			for _, extra := range []bool{false, true} {
				cfg := baseCfg()
				cfg.ExtraImports = extra
				cases = append(cases, SCase{ID: fmt.Sprintf("C19/helper-type-name/%s/%d/extra=%v", n, pi, extra), Cfg: cfg, Axes: map[string]string{"pos": "helper-type-name", "leaf": n},
					Schema: J{"type": "object", "properties": J{"name": J{"type": "string", "minLength": 2}, "p": J{"$ref": "#/$defs/" + n}}, "required": A{"name"},
						"additionalProperties": J{"type": "string"}, "$defs": J{n: space.Clone(pd)}}})
			}
		}
	}
	out := cases[:0:0]
	for i, c := range cases {
		if i%2 == 1 && !c.Cfg.ExtraImports {
			c.Cfg.ExtraImports = true
			c.ID += "+yaml"
		}
		out = append(out, c)
	}
	return out
}

type c19Tag struct {
	sc     *SCase
	typ    string
	mode   string
	inputs []string
	priors []string
	phase  int
}

func c19(ctx *Ctx) {
	scs := c19Cases(ctx.Level)
	cases := make([]genlab.Case, len(scs))
	for i := range scs {
		cases[i] = scs[i].Case()
	}
	bt, err := batch.Build(ctx.Pool, "C19", cases)
	if err != nil {
		harnessFail("batch: %v", err)
	}
	defer bt.Cleanup()
	var tasks []batch.Task
	for i, p := range bt.Programs {
		ctx.Run.Count("programs", 1)
		if p.GenErr != "" || p.BuildErr != "" {
			ctx.Run.Count("programs_not_generated_or_not_compiling(C01,C18)", 1)
			continue
		}
		m, err := refmodel.New(filesOf(p.Case), "s.json")
		if err != nil {
			harnessFail("model: %v", err)
		}
		inputs := c19Inputs(m)
		withDeep := append(append([]string{}, inputs...), c19Deep...)
		ctx.Run.Count("programs_executed", 1)
		for _, t := range p.Unmarsh {
			inputs := inputs
			if t == "S" || ctx.Level >= 1 {
				inputs = withDeep // 10001-deep nesting: quick tier only on the root type
			}
			ctx.Run.Count("types_with_UnmarshalJSON", 1)
			modes := []string{"method-json"}
			if p.Case.Cfg.ExtraImports {
				modes = append(modes, "method-yaml")
			}
			for _, mode := range modes {
				tasks = append(tasks, batch.Task{Prog: p, Type: t, Mode: mode, Tag: &c19Tag{sc: &scs[i], typ: t, mode: mode, inputs: inputs, phase: 1}})
			}
		}
	}
	var phase2 []batch.Task
	hfail := ""
	report := func(t *batch.Task, o *drv.Obs) {
		tag := t.Tag.(*c19Tag)
		if o.Skip != "" {
			if strings.HasPrefix(o.Skip, "no Unmarshal") {
				return
			}
			hfail = fmt.Sprintf("driver skipped %s %s: %s", tag.sc.ID, tag.typ, o.Skip)
			return
		}
		key := fmt.Sprintf("%s|%s|%s|%d", t.Prog.SourceSig, tag.typ, tag.mode, tag.phase)
		ctx.Run.EvalBulk(key, o.N)
		ctx.Run.Count("calls_returning_error", o.NErr)
		ctx.Run.Count("calls_returning_nil", o.N-o.NErr-len(o.Bads))
		for _, b := range o.Bads {
			input := tag.inputs[b.Doc]
			prior := ""
			if b.Prior >= 0 && b.Prior < len(tag.priors) {
				prior = tag.priors[b.Prior]
			}
			what := "panic: " + firstLine(b.Panic)
			sig := "panic"
			if b.Panic == "" {
				what = "destination modified although an error was returned: " + b.Changed
				sig = "modified-on-error"
			}
			replay := map[string]any{"kind": "method", "files": t.Prog.Case.Files, "cfg": t.Prog.Case.Cfg, "type": tag.typ, "mode": tag.mode, "input": input, "prior": prior, "observed": what}
			known := false
			for _, r := range c19Rules {
				if ctx.Run.Listed(r.name) && r.pred(b, input, prior) {
					ctx.Run.Known(r.name, fmt.Sprintf("%s type %s %s(%q): %s", tag.sc.ID, tag.typ, tag.mode, trunc(input, 60), what), replay)
					known = true
					break
				}
			}
			if !known {
				ctx.Run.Violation(sig+":"+tag.mode+":"+tag.sc.Axes["pos"]+":"+normCompileMsg(firstLine(b.Panic)), fmt.Sprintf("%s: type %s, %s(%q) with prior %q: %s", tag.sc.ID, tag.typ, tag.mode, trunc(input, 80), trunc(prior, 80), what), replay)
			}
		}
		if tag.phase == 1 && tag.mode == "method-json" {
			// priors: the first two documents this type accepts on a zero destination that are not empty values
			var priors []string
			for _, di := range o.OKDocs {
				d := strings.TrimSpace(tag.inputs[di])
				if d == "null" || d == "{}" || d == "[]" || d == `""` || d == "0" || d == "false" || len(d) > 400 {
					continue
				}
				priors = append(priors, tag.inputs[di])
				if len(priors) == 2 || (ctx.Level == 0 && len(priors) == 1) {
					break
				}
			}
			if len(priors) > 0 {
				modes := []string{"method-json"}
				if t.Prog.Case.Cfg.ExtraImports {
					modes = append(modes, "method-yaml")
				}
				for _, mode := range modes {
					phase2 = append(phase2, batch.Task{Prog: t.Prog, Type: tag.typ, Mode: mode, Tag: &c19Tag{sc: tag.sc, typ: tag.typ, mode: mode, inputs: tag.inputs, priors: priors, phase: 2}})
				}
			}
		}
	}
	runBulk := func(ts []batch.Task) {
		// bulk tasks carry their documents in the Doc field as JSON; the batch layer passes Docs through Task.Doc
		err := bt.RunBulk(ts, func(t *batch.Task) ([]string, []string) {
			tag := t.Tag.(*c19Tag)
			return tag.inputs, tag.priors
		}, report)
		if err != nil {
			harnessFail("run: %v", err)
		}
		if hfail != "" {
			harnessFail("%s", hfail)
		}
	}
	runBulk(tasks)
	runBulk(phase2)
	if len(tasks) > 0 {
		tg := tasks[0].Tag.(*c19Tag)
		ctx.Run.Sample(map[string]any{"case": tg.sc.ID, "type": tg.typ, "mode": tg.mode, "inputs": len(tg.inputs), "first_inputs": tg.inputs[:8], "schema": tasks[0].Prog.Case.Files[0].Content})
	}
	ctx.Run.Assume("the prior destination is re-created by decoding the same prior document twice; comparison is reflect.DeepEqual",
		"for UnmarshalYAML the input is first parsed by yaml.v3 into a node; inputs that are not YAML are skipped for that method", "trusted: encoding/json, yaml.v3, reflect")
}

func trunc(s string, n int) string {
	if len(s) > n {
		return s[:n] + "…"
	}
	return s
}

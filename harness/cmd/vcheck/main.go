// vcheck is the check runner: vcheck <Cxx> <quick|thorough>, vcheck worker <exportlist>.
package main

import (
	"fmt"
	"os"

	"verif/internal/genlab"
	"verif/props"
)

func main() {
	if len(os.Args) < 2 {
		fmt.Fprintln(os.Stderr, "usage: vcheck <property> <quick|thorough> | vcheck worker <exportlist>")
		os.Exit(2)
	}
	switch os.Args[1] {
	case "worker":
		genlab.WorkerMain(os.Args[2])
	case "replay":
		os.Exit(props.Replay(os.Args[2]))
	case "list":
		for _, id := range props.IDs() {
			fmt.Println(id)
		}
	default:
		tier := "quick"
		if len(os.Args) > 2 {
			tier = os.Args[2]
		}
		if t := os.Getenv("VERIF_TIER"); t != "" && len(os.Args) <= 2 {
			tier = t
		}
		os.Exit(props.Main(os.Args[1], tier))
	}
}

// maprange finds every `range` over a map in the repository's packages (with type information from compiler export
// data) and writes, for each file that has one, a rewritten copy in which the operand is wrapped in
// verifrt.MapSeq(operand, "<site>"), plus the overlay JSON that maps the copies (and the virtual verifrt package)
// into the repository module. Usage: maprange <repo> <exports.txt> <outdir> <overlay-in.json> <overlay-out.json>
package main

import (
	"bufio"
	"encoding/json"
	"fmt"
	"go/ast"
	"go/importer"
	"go/parser"
	"go/token"
	"go/types"
	"io"
	"os"
	"path/filepath"
	"sort"
	"strings"
)

const modPath = "github.com/atombender/go-jsonschema"

func main() {
	if len(os.Args) != 6 {
		fmt.Fprintln(os.Stderr, "usage: maprange <repo> <exports.txt> <outdir> <overlay-in.json> <overlay-out.json>")
		os.Exit(2)
	}
	repo, exportsFile, outDir, ovIn, ovOut := os.Args[1], os.Args[2], os.Args[3], os.Args[4], os.Args[5]
	exports := map[string]string{}
	f, err := os.Open(exportsFile)
	check(err)
	sc := bufio.NewScanner(f)
	for sc.Scan() {
		p := strings.Fields(sc.Text())
		if len(p) == 2 {
			exports[p[0]] = p[1]
		}
	}
	f.Close()
	var ov struct{ Replace map[string]string }
	b, err := os.ReadFile(ovIn)
	check(err)
	check(json.Unmarshal(b, &ov))
	// package directories: every directory of the repo (outside tests/, .git) with non-test go files
	var dirs []string
	filepath.Walk(repo, func(p string, info os.FileInfo, err error) error {
		if err != nil {
			return nil
		}
		if info.IsDir() {
			n := info.Name()
			if p != repo && (strings.HasPrefix(n, ".") || n == "tests" || n == "testdata" || n == "docs" || n == "scripts" || n == "verifrt" || n == "verifshim") {
				return filepath.SkipDir
			}
			dirs = append(dirs, p)
		}
		return nil
	})
	sort.Strings(dirs)
	var sites []string
	check(os.MkdirAll(outDir, 0o755))
	for _, dir := range dirs {
		fset := token.NewFileSet()
		pkgs, err := parser.ParseDir(fset, dir, func(fi os.FileInfo) bool { return !strings.HasSuffix(fi.Name(), "_test.go") }, parser.ParseComments)
		check(err)
		for _, pkg := range pkgs {
			var files []*ast.File
			var names []string
			for n := range pkg.Files {
				names = append(names, n)
			}
			sort.Strings(names)
			for _, n := range names {
				files = append(files, pkg.Files[n])
			}
			info := &types.Info{Types: map[ast.Expr]types.TypeAndValue{}}
			imp := importer.ForCompiler(fset, "gc", func(path string) (io.ReadCloser, error) {
				e, ok := exports[path]
				if !ok {
					return nil, fmt.Errorf("no export data for %q", path)
				}
				return os.Open(e)
			})
			conf := types.Config{Importer: imp, Error: func(err error) {}}
			rel, _ := filepath.Rel(repo, dir)
			ipath := modPath
			if rel != "." {
				ipath = modPath + "/" + filepath.ToSlash(rel)
			}
			_, _ = conf.Check(ipath, fset, files, info)
			for i, file := range files {
				type edit struct {
					pos, end int
					site     string
				}
				var edits []edit
				ast.Inspect(file, func(n ast.Node) bool {
					rs, ok := n.(*ast.RangeStmt)
					if !ok {
						return true
					}
					tv, ok := info.Types[rs.X]
					if !ok || tv.Type == nil {
						return true
					}
					if _, isMap := tv.Type.Underlying().(*types.Map); !isMap {
						return true
					}
					p := fset.Position(rs.X.Pos())
					relf, _ := filepath.Rel(repo, p.Filename)
					site := fmt.Sprintf("%s:%d", filepath.ToSlash(relf), p.Line)
					edits = append(edits, edit{fset.Position(rs.X.Pos()).Offset, fset.Position(rs.X.End()).Offset, site})
					return true
				})
				if len(edits) == 0 {
					continue
				}
				src, err := os.ReadFile(names[i])
				check(err)
				sort.Slice(edits, func(a, b int) bool { return edits[a].pos > edits[b].pos })
				out := string(src)
				for _, e := range edits {
					out = out[:e.pos] + "verifrt.MapSeq(" + out[e.pos:e.end] + ", " + fmt.Sprintf("%q", e.site) + ")" + out[e.end:]
					sites = append(sites, e.site)
				}
				// add the import after the package clause
				pc := fset.Position(file.Name.End()).Offset
				out = out[:pc] + "\n\nimport verifrt \"" + modPath + "/pkg/verifrt\"\n" + out[pc:]
				relf, _ := filepath.Rel(repo, names[i])
				dst := filepath.Join(outDir, strings.ReplaceAll(relf, string(filepath.Separator), "__"))
				check(os.WriteFile(dst, []byte(out), 0o644))
				ov.Replace[names[i]] = dst
			}
		}
	}
	sort.Strings(sites)
	ob, _ := json.Marshal(ov)
	check(os.WriteFile(ovOut, ob, 0o644))
	check(os.WriteFile(filepath.Join(outDir, "sites.txt"), []byte(strings.Join(sites, "\n")+"\n"), 0o644))
	fmt.Printf("maprange: %d map-range sites instrumented: %s\n", len(sites), strings.Join(sites, " "))
}

func check(err error) {
	if err != nil {
		fmt.Fprintln(os.Stderr, "maprange:", err)
		os.Exit(2)
	}
}

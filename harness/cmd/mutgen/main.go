// mutgen lists syntactic mutants of the repository's non-test Go sources (self-validation of the checks, DESIGN.md §12.3):
// one JSON line per mutant {id, file, line, start, end, repl, op, orig}; a mutant is "replace bytes [start,end) of file by repl".
// The enumeration is deterministic (files and positions in order); nothing here decides a property.
package main

import (
	"encoding/json"
	"fmt"
	"go/ast"
	"go/parser"
	"go/token"
	"os"
	"path/filepath"
	"sort"
	"strings"
)

type Mut struct {
	ID    string `json:"id"`
	File  string `json:"file"`
	Line  int    `json:"line"`
	Start int    `json:"start"`
	End   int    `json:"end"`
	Repl  string `json:"repl"`
	Op    string `json:"op"`
	Orig  string `json:"orig"`
}

var swaps = map[token.Token][]string{
	token.LSS: {"<="}, token.LEQ: {"<"}, token.GTR: {">="}, token.GEQ: {">"},
	token.EQL: {"!="}, token.NEQ: {"=="}, token.LAND: {"||"}, token.LOR: {"&&"},
	token.ADD: {"-"}, token.SUB: {"+"},
}

func main() {
	root := os.Args[1]
	var files []string
	filepath.Walk(root, func(p string, info os.FileInfo, err error) error {
		if err != nil {
			return nil
		}
		rel, _ := filepath.Rel(root, p)
		if info.IsDir() {
			if rel == "tests" || strings.HasPrefix(rel, ".") && rel != "." || rel == "seed" || rel == "docs" || rel == "scripts" {
				return filepath.SkipDir
			}
			return nil
		}
		if strings.HasSuffix(p, ".go") && !strings.HasSuffix(p, "_test.go") {
			files = append(files, rel)
		}
		return nil
	})
	sort.Strings(files)
	enc := json.NewEncoder(os.Stdout)
	enc.SetEscapeHTML(false)
	n := 0
	for _, rel := range files {
		src, err := os.ReadFile(filepath.Join(root, rel))
		if err != nil {
			panic(err)
		}
		fset := token.NewFileSet()
		f, err := parser.ParseFile(fset, rel, src, 0)
		if err != nil {
			panic(err)
		}
		var muts []Mut
		add := func(pos, end token.Pos, repl, op string) {
			s, e := fset.Position(pos).Offset, fset.Position(end).Offset
			o := string(src[s:e])
			if len(o) > 80 {
				o = o[:80] + "…"
			}
			muts = append(muts, Mut{File: rel, Line: fset.Position(pos).Line, Start: s, End: e, Repl: repl, Op: op, Orig: o})
		}
		ast.Inspect(f, func(nd ast.Node) bool {
			switch x := nd.(type) {
			case *ast.BinaryExpr:
				for _, r := range swaps[x.Op] {
					if x.Op == token.ADD || x.Op == token.SUB {
						// skip string concatenation: only arithmetic on something that looks numeric
						if isStringy(x.X) || isStringy(x.Y) {
							continue
						}
					}
					add(x.OpPos, x.OpPos+token.Pos(len(x.Op.String())), r, "binop:"+x.Op.String()+"→"+r)
				}
			case *ast.UnaryExpr:
				if x.Op == token.NOT {
					add(x.OpPos, x.OpPos+1, "", "drop-not")
				}
			case *ast.IfStmt:
				add(x.Cond.Pos(), x.Cond.Pos(), "false && ", "if-false")
				add(x.Cond.Pos(), x.Cond.Pos(), "true || ", "if-true")
			case *ast.ExprStmt:
				if _, ok := x.X.(*ast.CallExpr); ok {
					add(x.Pos(), x.End(), "{}", "del-call")
				}
			case *ast.AssignStmt:
				if x.Tok == token.ASSIGN || x.Tok == token.ADD_ASSIGN || x.Tok == token.SUB_ASSIGN {
					add(x.Pos(), x.End(), "{}", "del-assign")
				}
			case *ast.IncDecStmt:
				add(x.Pos(), x.End(), "{}", "del-incdec")
			case *ast.BasicLit:
				if x.Kind == token.INT {
					switch x.Value {
					case "0":
						add(x.Pos(), x.End(), "1", "lit:0→1")
					case "1":
						add(x.Pos(), x.End(), "0", "lit:1→0")
						add(x.Pos(), x.End(), "2", "lit:1→2")
					}
				}
			case *ast.BranchStmt:
				if x.Tok == token.CONTINUE && x.Label == nil {
					add(x.Pos(), x.End(), "{}", "del-continue")
				}
				if x.Tok == token.BREAK && x.Label == nil {
					add(x.Pos(), x.End(), "{}", "del-break")
				}
			case *ast.ReturnStmt:
				// `return ..., err` / `return fmt.Errorf(...)` inside a function whose last result is error: swallow it
				if len(x.Results) > 0 {
					last := x.Results[len(x.Results)-1]
					if id, ok := last.(*ast.Ident); ok && id.Name == "err" {
						add(last.Pos(), last.End(), "nil", "return-err→nil")
					}
					if c, ok := last.(*ast.CallExpr); ok {
						if se, ok := c.Fun.(*ast.SelectorExpr); ok {
							if p, ok := se.X.(*ast.Ident); ok && (p.Name == "fmt" && se.Sel.Name == "Errorf" || p.Name == "errors" && se.Sel.Name == "New") {
								add(last.Pos(), last.End(), "nil", "return-error→nil")
							}
						}
					}
				}
			}
			return true
		})
		sort.SliceStable(muts, func(i, j int) bool { return muts[i].Start < muts[j].Start })
		for _, m := range muts {
			n++
			m.ID = fmt.Sprintf("A%04d", n)
			enc.Encode(m)
		}
	}
}

func isStringy(e ast.Expr) bool {
	switch x := e.(type) {
	case *ast.BasicLit:
		return x.Kind == token.STRING || x.Kind == token.CHAR
	case *ast.BinaryExpr:
		return isStringy(x.X) || isStringy(x.Y)
	case *ast.CallExpr:
		if se, ok := x.Fun.(*ast.SelectorExpr); ok {
			if p, ok := se.X.(*ast.Ident); ok && (p.Name == "fmt" || p.Name == "strings" || p.Name == "filepath" || p.Name == "path") {
				return true
			}
		}
		if id, ok := x.Fun.(*ast.Ident); ok && id.Name == "string" {
			return true
		}
	}
	return false
}

// Package drv is linked into the batch driver binaries together with the
// freshly generated packages. It is deliberately dumb: it decodes documents
// into generated types and reports what it observed; every oracle decision is
// taken by the host against the reference model.
package drv

import (
	"bufio"
	"encoding"
	"encoding/json"
	"fmt"
	"os"
	"reflect"
	"runtime/debug"
	"sort"
	"strconv"
	"strings"

	"gopkg.in/yaml.v3"
)

var registry = map[string]map[string]func() any{}

var lastDocs []string

// Register is called from the init function of every generated package.
func Register(pkg string, ctors map[string]func() any) { registry[pkg] = ctors }

// Task is one decode to perform.
type Task struct {
	I     int    `json:"i"`
	Pkg   string `json:"p"`
	Type  string `json:"t"`
	Mode  string `json:"m"` // json yaml method-json method-yaml
	Doc   string `json:"d"`
	Prior string `json:"q,omitempty"` // JSON document decoded into the destination first (C19)
	// bulk mode (C19): every document is tried on a fresh destination prepared from every prior ("" = zero value)
	Docs   []string `json:"ds,omitempty"`
	Priors []string `json:"qs,omitempty"`
	Same   bool     `json:"sm,omitempty"` // bulk: reuse the documents of the previous bulk task
}

// Bad is one noteworthy bulk observation.
type Bad struct {
	Doc     int    `json:"d"`
	Prior   int    `json:"q"` // -1 = zero value
	Panic   string `json:"p,omitempty"`
	Changed string `json:"c,omitempty"`
}

// Obs is what happened.
type Obs struct {
	I       int             `json:"i"`
	Err     string          `json:"e,omitempty"`
	Panic   string          `json:"p,omitempty"`
	Walk    json.RawMessage `json:"w,omitempty"`
	Re      string          `json:"r,omitempty"`
	MErr    string          `json:"me,omitempty"`
	Changed string          `json:"c,omitempty"`
	Skip    string          `json:"s,omitempty"`
	Methods []string        `json:"ms,omitempty"`
	// bulk mode
	N      int   `json:"n,omitempty"`  // calls made
	NErr   int   `json:"ne,omitempty"` // calls that returned an error
	OKDocs []int `json:"ok,omitempty"` // documents accepted on the zero destination
	Bads   []Bad `json:"b,omitempty"`
}

// AdditionalKey mirrors refmodel.AdditionalKey.
const AdditionalKey = "\x00additional"

// Main reads tasks (JSON lines) from stdin and writes observations to stdout.
func Main() {
	in := bufio.NewReaderSize(os.Stdin, 1<<20)
	out := bufio.NewWriterSize(os.Stdout, 1<<20)
	defer out.Flush()
	dec := json.NewDecoder(in)
	enc := json.NewEncoder(out)
	enc.SetEscapeHTML(false)
	if len(os.Args) > 1 && os.Args[1] == "types" {
		// list registered types and their unmarshal methods
		type ti struct {
			Pkg     string              `json:"p"`
			Methods map[string][]string `json:"m"`
		}
		pk := make([]string, 0, len(registry))
		for p := range registry {
			pk = append(pk, p)
		}
		sort.Strings(pk)
		for _, p := range pk {
			t := ti{Pkg: p, Methods: map[string][]string{}}
			for name, c := range registry[p] {
				v := c()
				var ms []string
				if _, ok := v.(json.Unmarshaler); ok {
					ms = append(ms, "UnmarshalJSON")
				}
				if _, ok := v.(yaml.Unmarshaler); ok {
					ms = append(ms, "UnmarshalYAML")
				}
				if _, ok := v.(json.Marshaler); ok {
					ms = append(ms, "MarshalJSON")
				}
				t.Methods[name] = ms
			}
			enc.Encode(t)
		}
		return
	}
	for {
		var t Task
		if err := dec.Decode(&t); err != nil {
			return
		}
		var o *Obs
		if t.Same {
			t.Docs = lastDocs
		}
		if len(t.Docs) > 0 {
			lastDocs = t.Docs
			o = bulk(&t)
		} else {
			o = run(&t)
		}
		if err := enc.Encode(o); err != nil {
			fmt.Fprintln(os.Stderr, "drv: encode:", err)
			os.Exit(3)
		}
	}
}

func run(t *Task) (o *Obs) {
	o = &Obs{I: t.I}
	ctors, ok := registry[t.Pkg]
	if !ok {
		o.Skip = "package not linked"
		return
	}
	ctor, ok := ctors[t.Type]
	if !ok {
		o.Skip = "type not found"
		return
	}
	defer func() {
		if r := recover(); r != nil {
			st := string(debug.Stack())
			if len(st) > 1500 {
				st = st[:1500]
			}
			o.Panic = fmt.Sprintf("%v\n%s", r, st)
		}
	}()
	v := ctor()
	var v2 any
	if t.Prior != "" {
		if err := json.Unmarshal([]byte(t.Prior), v); err != nil {
			o.Skip = "prior does not decode: " + err.Error()
			return
		}
		v2 = ctor()
		_ = json.Unmarshal([]byte(t.Prior), v2)
	} else if strings.HasPrefix(t.Mode, "method") {
		v2 = ctor()
	}
	var err error
	switch t.Mode {
	case "json":
		err = json.Unmarshal([]byte(t.Doc), v)
	case "yaml":
		err = yaml.Unmarshal([]byte(t.Doc), v)
	case "method-json":
		u, ok := v.(json.Unmarshaler)
		if !ok {
			o.Skip = "no UnmarshalJSON"
			return
		}
		err = u.UnmarshalJSON([]byte(t.Doc))
	case "method-yaml":
		u, ok := v.(yaml.Unmarshaler)
		if !ok {
			o.Skip = "no UnmarshalYAML"
			return
		}
		var n yaml.Node
		if perr := yaml.Unmarshal([]byte(t.Doc), &n); perr != nil {
			o.Skip = "not YAML: " + perr.Error()
			return
		}
		node := &n
		if n.Kind == yaml.DocumentNode && len(n.Content) == 1 {
			node = n.Content[0]
		}
		err = u.UnmarshalYAML(node)
	default:
		o.Skip = "bad mode"
		return
	}
	if err != nil {
		o.Err = err.Error()
		if o.Err == "" {
			o.Err = "error with empty text"
		}
		if v2 != nil && !reflect.DeepEqual(v, v2) {
			o.Changed = fmt.Sprintf("before=%s after=%s", walkText(v2), walkText(v))
		}
		return
	}
	o.Walk = json.RawMessage(walkText(v))
	b, merr := json.Marshal(v)
	if merr != nil {
		o.MErr = merr.Error()
	} else {
		o.Re = string(b)
	}
	return
}

func walkText(v any) string {
	var sb strings.Builder
	walk(&sb, reflect.ValueOf(v), 0)
	return sb.String()
}

var (
	jsonMarshaler = reflect.TypeOf((*json.Marshaler)(nil)).Elem()
	textMarshaler = reflect.TypeOf((*encoding.TextMarshaler)(nil)).Elem()
)

func quote(s string) string {
	var sb strings.Builder
	e := json.NewEncoder(&sb)
	e.SetEscapeHTML(false)
	e.Encode(s)
	return strings.TrimRight(sb.String(), "\n")
}

// isNilish: nil pointer / slice / map / interface.
func isNilish(v reflect.Value) bool {
	switch v.Kind() {
	case reflect.Ptr, reflect.Slice, reflect.Map, reflect.Interface:
		return v.IsNil()
	}
	return false
}

func walk(sb *strings.Builder, v reflect.Value, depth int) {
	if depth > 64 {
		sb.WriteString(`"<deep>"`)
		return
	}
	if !v.IsValid() {
		sb.WriteString("null")
		return
	}
	if isNilish(v) {
		sb.WriteString("null")
		return
	}
	t := v.Type()
	// leaf types that render themselves (time.Time, netip.Addr, SerializableDate, enum wrappers)
	if t.Kind() == reflect.Struct {
		pv := v
		if !v.CanAddr() {
			c := reflect.New(t)
			c.Elem().Set(v)
			pv = c.Elem()
		}
		if reflect.PointerTo(t).Implements(jsonMarshaler) {
			if b, err := pv.Addr().Interface().(json.Marshaler).MarshalJSON(); err == nil {
				sb.Write(b)
				return
			}
		} else if reflect.PointerTo(t).Implements(textMarshaler) {
			if b, err := pv.Addr().Interface().(encoding.TextMarshaler).MarshalText(); err == nil {
				sb.WriteString(quote(string(b)))
				return
			}
		}
	}
	switch v.Kind() {
	case reflect.Ptr, reflect.Interface:
		walk(sb, v.Elem(), depth+1)
	case reflect.Struct:
		sb.WriteByte('{')
		first := true
		for i := 0; i < t.NumField(); i++ {
			f := t.Field(i)
			fv := v.Field(i)
			if isNilish(fv) {
				continue
			}
			name := f.Name
			tag, hasTag := f.Tag.Lookup("json")
			if hasTag {
				name = strings.Split(tag, ",")[0]
				if name == "" {
					name = f.Name
				}
			} else if ms, ok := f.Tag.Lookup("mapstructure"); ok && strings.Contains(ms, "remain") {
				name = AdditionalKey
				if fv.Kind() == reflect.Map && fv.Len() == 0 {
					continue
				}
			} else if yt, ok := f.Tag.Lookup("yaml"); ok {
				name = "\x00yaml:" + strings.Split(yt, ",")[0]
			} else if mt, ok := f.Tag.Lookup("mapstructure"); ok {
				name = "\x00mapstructure:" + strings.Split(mt, ",")[0]
			} else if f.Tag == "" {
				name = "\x00field:" + f.Name
			}
			if !f.IsExported() {
				name = "\x00unexported:" + f.Name
			}
			if !first {
				sb.WriteByte(',')
			}
			first = false
			sb.WriteString(quote(name))
			sb.WriteByte(':')
			if f.IsExported() {
				walk(sb, fv, depth+1)
			} else {
				sb.WriteString("null")
			}
		}
		sb.WriteByte('}')
	case reflect.Slice, reflect.Array:
		sb.WriteByte('[')
		for i := 0; i < v.Len(); i++ {
			if i > 0 {
				sb.WriteByte(',')
			}
			walk(sb, v.Index(i), depth+1)
		}
		sb.WriteByte(']')
	case reflect.Map:
		keys := v.MapKeys()
		ks := make([]string, len(keys))
		idx := map[string]reflect.Value{}
		for i, k := range keys {
			ks[i] = fmt.Sprint(k.Interface())
			idx[ks[i]] = k
		}
		sort.Strings(ks)
		sb.WriteByte('{')
		for i, k := range ks {
			if i > 0 {
				sb.WriteByte(',')
			}
			sb.WriteString(quote(k))
			sb.WriteByte(':')
			walk(sb, v.MapIndex(idx[k]), depth+1)
		}
		sb.WriteByte('}')
	case reflect.String:
		sb.WriteString(quote(v.String()))
	case reflect.Bool:
		sb.WriteString(strconv.FormatBool(v.Bool()))
	case reflect.Int, reflect.Int8, reflect.Int16, reflect.Int32, reflect.Int64:
		sb.WriteString(strconv.FormatInt(v.Int(), 10))
	case reflect.Uint, reflect.Uint8, reflect.Uint16, reflect.Uint32, reflect.Uint64:
		sb.WriteString(strconv.FormatUint(v.Uint(), 10))
	case reflect.Float32, reflect.Float64:
		sb.WriteString(strconv.FormatFloat(v.Float(), 'g', -1, 64))
	default:
		sb.WriteString(quote("<" + v.Kind().String() + ">"))
	}
}

// bulk runs every document against every prior destination and reports only panics and modified-on-error cases.
func bulk(t *Task) *Obs {
	o := &Obs{I: t.I}
	priors := append([]string{""}, t.Priors...)
	for qi, q := range priors {
		for di, d := range t.Docs {
			one := Task{I: t.I, Pkg: t.Pkg, Type: t.Type, Mode: t.Mode, Doc: d, Prior: q}
			r := run(&one)
			if r.Skip != "" {
				if strings.HasPrefix(r.Skip, "prior") || strings.HasPrefix(r.Skip, "not YAML") {
					continue
				}
				o.Skip = r.Skip
				return o
			}
			o.N++
			if r.Err != "" {
				o.NErr++
			} else if r.Panic == "" && qi == 0 {
				o.OKDocs = append(o.OKDocs, di)
			}
			if r.Panic != "" || r.Changed != "" {
				if len(o.Bads) < 50 {
					p := r.Panic
					if len(p) > 600 {
						p = p[:600]
					}
					o.Bads = append(o.Bads, Bad{Doc: di, Prior: qi - 1, Panic: p, Changed: r.Changed})
				}
			}
		}
	}
	return o
}

// Package report writes evidence files, replay files, VIOLATION and
// KNOWN-FINDING lines, and consults the committed known-findings file.
package report

import (
	"encoding/json"
	"fmt"
	"os"
	"path/filepath"
	"sort"
	"strconv"
	"strings"
	"sync"
	"time"

	"verif/internal/ws"
)

// Finding is one entry of /verif/known_findings.json.
type Finding struct {
	ID         string   `json:"id"`
	Properties []string `json:"properties"`
	Rule       string   `json:"rule"` // deviation / rule name implemented in code
	What       string   `json:"what"`
	Example    any      `json:"example,omitempty"`
}

type findingsFile struct {
	Findings []Finding `json:"findings"`
	Fixed    []string  `json:"fixed"`
}

// Run accumulates the outcome of one check invocation.
type Run struct {
	Prop  string
	Tier  string
	Seed  int64
	Level string

	mu           sync.Mutex
	start        time.Time
	Cov          map[string]any
	Assumptions  []string
	samples      []any
	nViol        int
	violSigs     map[string]int
	violOrder    []string
	knownCount   map[string]int
	knownEx      map[string]string
	rules        map[string]Finding // rule name -> finding (restricted to this property)
	counters     map[string]int
	distinct     map[string]struct{}
	evals        int
	bulkDistinct int
	Exhaustive   bool
	notes        []string
}

func New(prop, tier, level string) *Run {
	seed, _ := strconv.ParseInt(os.Getenv("VERIF_SEED"), 10, 64)
	r := &Run{
		Prop: prop, Tier: tier, Seed: seed, Level: level, start: time.Now(),
		Cov: map[string]any{}, violSigs: map[string]int{}, knownCount: map[string]int{}, knownEx: map[string]string{},
		rules: map[string]Finding{}, counters: map[string]int{}, distinct: map[string]struct{}{}, Exhaustive: true,
	}
	b, err := os.ReadFile(filepath.Join(ws.VerifDir(), "known_findings.json"))
	if err == nil {
		var ff findingsFile
		if err := json.Unmarshal(b, &ff); err != nil {
			fmt.Fprintln(os.Stderr, "HARNESS: known_findings.json does not parse:", err)
			os.Exit(2)
		}
		for _, f := range ff.Findings {
			for _, p := range f.Properties {
				if p == prop {
					r.rules[f.Rule] = f
				}
			}
		}
	}
	os.MkdirAll(outDir("evidence"), 0o755)
	os.MkdirAll(outDir("replays"), 0o755)
	return r
}

// Listed reports whether a rule / deviation name is enabled for this property by the known-findings file.
func (r *Run) Listed(rule string) bool {
	_, ok := r.rules[rule]
	return ok
}

// ListedRules returns the enabled rule names (sorted).
func (r *Run) ListedRules() []string {
	var s []string
	for k := range r.rules {
		s = append(s, k)
	}
	sort.Strings(s)
	return s
}

// Eval counts one evaluation; key identifies the case for distinctness; nontrivial says whether it counts.
func (r *Run) Eval(key string, nontrivial bool) {
	r.mu.Lock()
	r.evals++
	if nontrivial {
		r.distinct[key] = struct{}{}
	}
	r.mu.Unlock()
}

// EvalBulk counts n evaluations that are distinct among themselves and identified as a group by key.
func (r *Run) EvalBulk(key string, n int) {
	r.mu.Lock()
	r.evals += n
	if _, seen := r.distinct[key]; !seen {
		r.distinct[key] = struct{}{}
		r.bulkDistinct += n - 1
	}
	r.mu.Unlock()
}

func (r *Run) Count(name string, n int) {
	r.mu.Lock()
	r.counters[name] += n
	r.mu.Unlock()
}

func (r *Run) Counter(name string) int {
	r.mu.Lock()
	defer r.mu.Unlock()
	return r.counters[name]
}

func (r *Run) Sample(s any) {
	r.mu.Lock()
	if len(r.samples) < 12 {
		r.samples = append(r.samples, s)
	}
	r.mu.Unlock()
}

func (r *Run) Note(s string) {
	r.mu.Lock()
	r.notes = append(r.notes, s)
	r.mu.Unlock()
}

func (r *Run) Assume(s ...string) { r.Assumptions = append(r.Assumptions, s...) }

// Known attributes a deviating case to a listed finding. If the rule is not
// listed for this property the case is a violation.
func (r *Run) Known(rule string, example string, replay any) {
	r.mu.Lock()
	f, ok := r.rules[rule]
	if ok {
		r.knownCount[f.ID]++
		if _, has := r.knownEx[f.ID]; !has {
			r.knownEx[f.ID] = example
		}
		r.mu.Unlock()
		return
	}
	r.mu.Unlock()
	r.Violation("unlisted:"+rule, example, replay)
}

// Violation records a violation. sig groups equal kinds of violation; one
// replay file and one VIOLATION line are produced per signature (first case).
func (r *Run) Violation(sig string, msg string, replay any) {
	r.mu.Lock()
	defer r.mu.Unlock()
	r.nViol++
	r.violSigs[sig]++
	if r.violSigs[sig] > 1 {
		return
	}
	r.violOrder = append(r.violOrder, sig)
	if len(r.violOrder) > 40 {
		return
	}
	name := fmt.Sprintf("%s-%s-%02d.json", r.Prop, r.Tier, len(r.violOrder))
	path := filepath.Join(outDir("replays"), name)
	b, _ := json.MarshalIndent(map[string]any{"property": r.Prop, "signature": sig, "message": msg, "case": replay}, "", " ")
	_ = os.WriteFile(path, b, 0o644)
	fmt.Printf("VIOLATION property=%s replay=%s\n", r.Prop, path)
	fmt.Printf("  what: [%s] %s\n", sig, oneLine(msg, 600))
}

func oneLine(s string, n int) string {
	s = strings.ReplaceAll(s, "\n", " ⏎ ")
	if len(s) > n {
		s = s[:n] + "…"
	}
	return s
}

// Violations returns the number of violations so far.
func (r *Run) Violations() int {
	r.mu.Lock()
	defer r.mu.Unlock()
	return r.nViol
}

// Finish writes the evidence file, prints KNOWN-FINDING lines and returns the exit code.
func (r *Run) Finish(rule string) int {
	r.mu.Lock()
	defer r.mu.Unlock()
	ids := make([]string, 0, len(r.knownCount))
	for id := range r.knownCount {
		ids = append(ids, id)
	}
	sort.Strings(ids)
	kf := map[string]int{}
	for _, id := range ids {
		var what string
		for _, f := range r.rules {
			if f.ID == id {
				what = f.What
			}
		}
		fmt.Printf("KNOWN-FINDING: property=%s %s: %s (%d cases; e.g. %s)\n", r.Prop, id, what, r.knownCount[id], oneLine(r.knownEx[id], 300))
		kf[id] = r.knownCount[id]
	}
	cov := r.Cov
	cov["evaluations"] = r.evals
	cov["distinct_nontrivial"] = len(r.distinct) + r.bulkDistinct
	cov["rule"] = rule
	if len(r.samples) == 0 {
		r.samples = append(r.samples, "no cases were explored")
	}
	cov["samples"] = r.samples
	cov["exhaustive"] = r.Exhaustive
	cov["known_findings"] = kf
	cov["counters"] = r.counters
	if len(r.notes) > 0 {
		cov["notes"] = r.notes
	}
	if len(r.violSigs) > 0 {
		cov["violation_signatures"] = r.violSigs
	}
	ev := map[string]any{
		"property_id": r.Prop, "tier": r.Tier, "seed": r.Seed, "level": r.Level,
		"coverage": cov, "assumptions": r.Assumptions,
		"wall_s": float64(int(time.Since(r.start).Seconds()*100)) / 100, "violations": r.nViol,
	}
	b, _ := json.MarshalIndent(ev, "", " ")
	path := filepath.Join(outDir("evidence"), r.Prop+".json")
	if err := os.WriteFile(path, append(b, '\n'), 0o644); err != nil {
		fmt.Fprintln(os.Stderr, "HARNESS: cannot write evidence:", err)
		return 2
	}
	fmt.Printf("%s %s: evaluations=%d distinct_nontrivial=%d violations=%d known_findings=%d exhaustive=%v wall=%.1fs\n",
		r.Prop, r.Tier, r.evals, len(r.distinct)+r.bulkDistinct, r.nViol, len(kf), r.Exhaustive, time.Since(r.start).Seconds())
	if r.nViol > 0 {
		return 1
	}
	return 0
}

// outDir is /verif/<name>, except when the check is pointed at a scratch copy of the repository (VERIF_REPO): evidence and
// replay files of such runs are not evidence about /repo and go to the scratch directory.
func outDir(name string) string {
	if ws.RepoDir() != "/repo" {
		return filepath.Join(ws.Root(), name)
	}
	return filepath.Join(ws.VerifDir(), name)
}

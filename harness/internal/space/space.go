// Package space holds the schema-space alphabets shared by the checks:
// leaf property schemas, positions (how a leaf is embedded into a root
// schema), option sets and text alphabets. Everything is enumerated in a fixed,
// simplest-first order; nothing is sampled.
package space

import (
	"encoding/json"
	"fmt"
	"sort"
)

type J = map[string]any
type A = []any

// Leaf is a property schema with the axes it was built from.
type Leaf struct {
	Name     string
	S        J
	Kind     string // string integer number boolean null any enum array object map
	Default  any    // a default value valid for the leaf (nil: none offered)
	Nullable bool   // may be turned into [T,"null"]
	Format   string
	Defs     J // definitions the leaf refers to (merged into the root's $defs)
}

func cp(j J) J {
	b, _ := json.Marshal(j)
	var o J
	_ = json.Unmarshal(b, &o)
	return o
}

// Clone deep-copies a schema.
func Clone(j J) J { return cp(j) }

func merge(a J, kv ...any) J {
	o := cp(a)
	for i := 0; i+1 < len(kv); i += 2 {
		o[kv[i].(string)] = kv[i+1]
	}
	return o
}

// With returns a copy of j with extra keys.
func With(j J, kv ...any) J { return merge(j, kv...) }

// Text renders a schema deterministically (sorted keys).
func Text(j any) string {
	b, err := json.Marshal(j)
	if err != nil {
		panic(err)
	}
	return string(b)
}

// Leaves returns the leaf alphabet. level 0 = quick, 1 = thorough.
func Leaves(level int) []Leaf {
	var ls []Leaf
	add := func(name, kind string, s J, def any, nullable bool) {
		l := Leaf{Name: name, S: s, Kind: kind, Default: def, Nullable: nullable}
		if f, ok := s["format"].(string); ok {
			l.Format = f
		}
		ls = append(ls, l)
	}
	str := J{"type": "string"}
	add("string", "string", str, "dflt", true)
	add("string-min", "string", merge(str, "minLength", 2), "dflt", true)
	add("string-max", "string", merge(str, "maxLength", 5), "dflt", true)
	add("string-pat", "string", merge(str, "pattern", "^[a-z]+$"), "dflt", true)
	add("string-all", "string", merge(str, "minLength", 2, "maxLength", 5, "pattern", "^[a-z]+$"), "dflt", true)
	add("string-date", "string", merge(str, "format", "date"), "2024-02-29", true)
	add("string-time", "string", merge(str, "format", "time"), "12:34:56", true)
	add("string-datetime", "string", merge(str, "format", "date-time"), "2024-02-29T12:34:56Z", true)
	add("string-ipv4", "string", merge(str, "format", "ipv4"), "10.0.0.1", true)
	add("string-ipv6", "string", merge(str, "format", "ipv6"), "::1", true)
	in := J{"type": "integer"}
	add("integer", "integer", in, 7, true)
	add("integer-min", "integer", merge(in, "minimum", 2), 7, true)
	add("integer-max", "integer", merge(in, "maximum", 100), 7, true)
	add("integer-minmax", "integer", merge(in, "minimum", 0, "maximum", 100), 7, true)
	add("integer-exnum", "integer", merge(in, "exclusiveMinimum", 2, "exclusiveMaximum", 100), 7, true)
	add("integer-exbool", "integer", merge(in, "minimum", 2, "exclusiveMinimum", true, "maximum", 100, "exclusiveMaximum", true), 7, true)
	add("integer-mult", "integer", merge(in, "multipleOf", 2), 8, true)
	add("integer-neg", "integer", merge(in, "minimum", -5, "maximum", 300), 7, true)
	nu := J{"type": "number"}
	add("number", "number", nu, 1.5, true)
	add("number-minmax", "number", merge(nu, "minimum", 0.5, "maximum", 9.5), 1.5, true)
	add("number-ex", "number", merge(nu, "exclusiveMinimum", 0.5, "exclusiveMaximum", 9.5), 1.5, true)
	add("number-mult", "number", merge(nu, "multipleOf", 0.5), 1.5, true)
	add("boolean", "boolean", J{"type": "boolean"}, true, true)
	add("null", "null", J{"type": "null"}, nil, false)
	add("any", "any", J{}, nil, false)
	add("enum-str", "enum", J{"enum": A{"a", "b"}}, "b", false)
	add("enum-str-typed", "enum", J{"type": "string", "enum": A{"x-1", "y 2"}}, "y 2", false)
	add("enum-int-typed", "enum", J{"type": "integer", "enum": A{1, 2, 3}}, 2, false)
	add("enum-num", "enum", J{"enum": A{1.5, 2}}, nil, false)
	add("enum-bool", "enum", J{"enum": A{true}}, nil, false)
	add("enum-null", "enum", J{"enum": A{nil}}, nil, false)
	add("enum-mixed", "enum", J{"enum": A{"a", 1, nil, true}}, nil, false)
	add("enum-str-null", "enum", J{"enum": A{"a", "b", nil}}, nil, false)
	add("enum-int-null", "enum", J{"enum": A{1, 2, nil}}, nil, false)
	add("array-str", "array", J{"type": "array", "items": J{"type": "string"}}, A{"x", "y"}, true)
	add("array-int-lim", "array", J{"type": "array", "items": J{"type": "integer"}, "minItems": 1, "maxItems": 3}, A{1, 2}, true)
	add("array-noitems", "array", J{"type": "array"}, nil, true)
	add("array-array", "array", J{"type": "array", "items": J{"type": "array", "items": J{"type": "number"}}}, nil, true)
	add("array-obj", "array", J{"type": "array", "items": J{"type": "object", "properties": J{"k": J{"type": "string"}}, "required": A{"k"}}}, nil, true)
	add("array-enum", "array", J{"type": "array", "items": J{"enum": A{"r", "g"}}}, nil, true)
	add("array-null-items", "array", J{"type": "array", "items": J{"type": "null"}}, nil, true)
	add("array-null-items-lim", "array", J{"type": "array", "items": J{"type": "null"}, "minItems": 1, "maxItems": 3}, nil, true)
	add("object", "object", J{"type": "object", "properties": J{"k": J{"type": "string"}, "n": J{"type": "integer", "minimum": 1}}, "required": A{"k"}}, nil, true)
	add("object-allreq-default", "object", J{"type": "object", "properties": J{"k": J{"type": "string"}}, "required": A{"k"}}, J{"k": "v"}, true)
	// a wide object: many members, every validator family at once (count / order thresholds in the generator bite here)
	add("object-wide", "object", J{"type": "object", "properties": J{
		"s": J{"type": "string", "minLength": 1, "maxLength": 8, "pattern": "^[a-z]"}, "n": J{"type": "integer", "minimum": 1, "maximum": 9, "multipleOf": 1},
		"f": J{"type": "number", "exclusiveMinimum": 0, "multipleOf": 0.5}, "a": J{"type": "array", "minItems": 1, "maxItems": 3, "items": J{"type": "string"}},
		"e": J{"type": "string", "enum": A{"x", "y"}}, "o": J{"type": "object", "properties": J{"k": J{"type": "string"}}, "required": A{"k"}},
		"ns": J{"type": A{"string", "null"}, "minLength": 2}, "d": J{"type": "integer", "default": 4, "minimum": 2}, "b": J{"type": "boolean"}, "z": J{"type": "null"}},
		"required": A{"s", "n", "a", "o"}}, nil, true)
	add("object-empty", "map", J{"type": "object"}, nil, true)
	add("map-str", "map", J{"type": "object", "additionalProperties": J{"type": "string"}}, nil, true)
	add("map-int-required", "map", J{"type": "object", "additionalProperties": J{"type": "integer"}, "required": A{"k1"}}, nil, true)
	add("map-obj", "map", J{"type": "object", "additionalProperties": J{"type": "object", "properties": J{"k": J{"type": "integer"}}}}, nil, true)
	mv := J{"MV": J{"type": "object", "properties": J{"k": J{"type": "string"}}, "required": A{"k"}}, "MS": J{"type": "string", "minLength": 2}}
	add("map-ref-obj", "map", J{"type": "object", "additionalProperties": J{"$ref": "#/$defs/MV"}}, nil, true)
	ls[len(ls)-1].Defs = mv
	add("map-ref-str", "map", J{"type": "object", "additionalProperties": J{"$ref": "#/$defs/MS"}}, nil, true)
	ls[len(ls)-1].Defs = mv
	add("map-enum-untyped", "map", J{"type": "object", "additionalProperties": J{"enum": A{"a", "b"}}}, nil, true)
	add("object-addl-typed", "object", J{"type": "object", "properties": J{"k": J{"type": "string"}}, "additionalProperties": J{"type": "integer"}}, nil, true)
	// every validator family of an object at once, next to typed additional properties (order of the generated checks)
	add("object-addl-typed-full", "object", J{"type": "object", "properties": J{"k": J{"type": "string", "minLength": 1}, "d": J{"type": "integer", "default": 4, "minimum": 2}, "a": J{"type": "array", "items": J{"type": "string"}, "maxItems": 2}},
		"required": A{"k"}, "additionalProperties": J{"type": "integer"}}, nil, true)
	add("object-addl-num", "object", J{"type": "object", "properties": J{"k": J{"type": "string"}}, "additionalProperties": J{"type": "number"}}, nil, true)
	add("object-addl-bool", "object", J{"type": "object", "properties": J{"k": J{"type": "string"}}, "additionalProperties": J{"type": "boolean"}}, nil, true)
	add("object-addl-false", "object", J{"type": "object", "properties": J{"k": J{"type": "string"}}, "additionalProperties": false}, nil, true)
	if level >= 1 {
		add("string-min-max-eq", "string", merge(str, "minLength", 3, "maxLength", 3), "abc", true)
		add("integer-exnum-min", "integer", merge(in, "minimum", 3, "exclusiveMinimum", 2), 7, true)
		add("number-mult-min", "number", merge(nu, "multipleOf", 1.5, "minimum", 1.5), 3, true)
		add("enum-int", "enum", J{"enum": A{1, 2}}, nil, false)
		add("enum-num-typed", "enum", J{"type": "number", "enum": A{1.5, 2}}, 1.5, false)
		add("enum-bool-typed", "enum", J{"type": "boolean", "enum": A{true, false}}, true, false)
		add("array-str-lim", "array", J{"type": "array", "items": J{"type": "string", "minLength": 1}, "minItems": 2}, A{"x", "y"}, true)
		add("array-3d", "array", J{"type": "array", "items": J{"type": "array", "items": J{"type": "array", "items": J{"type": "integer"}}}}, nil, true)
		add("array-nullable-items", "array", J{"type": "array", "items": J{"type": A{"string", "null"}}}, nil, true)
		add("map-int", "map", J{"type": "object", "additionalProperties": J{"type": "integer"}}, nil, true)
		add("map-any", "map", J{"type": "object", "additionalProperties": true}, nil, true)
		add("object-nested", "object", J{"type": "object", "properties": J{"o": J{"type": "object", "properties": J{"k": J{"type": "string", "minLength": 1}}}}}, nil, true)
		add("object-addl-str", "object", J{"type": "object", "properties": J{"k": J{"type": "string"}}, "additionalProperties": J{"type": "string"}}, nil, true)
		add("object-addl-arr", "object", J{"type": "object", "properties": J{"k": J{"type": "string"}}, "additionalProperties": J{"type": "array", "items": J{"type": "string"}}}, nil, true)
		add("object-addl-true", "object", J{"type": "object", "properties": J{"k": J{"type": "string"}}, "required": A{"k"}, "additionalProperties": true}, nil, true)
		add("object-addl-ref", "object", J{"type": "object", "properties": J{"k": J{"type": "string"}}, "additionalProperties": J{"$ref": "#/$defs/MS"}}, nil, true)
		ls[len(ls)-1].Defs = mv
		add("multi-type", "any", J{"type": A{"string", "integer"}}, nil, false)
	}
	return ls
}

// MakeNullable turns a single-typed schema into [T,"null"] (order 0) or ["null",T] (order 1).
func MakeNullable(s J, order int) J {
	o := cp(s)
	t, ok := o["type"].(string)
	if !ok {
		return o
	}
	if order == 0 {
		o["type"] = A{t, "null"}
	} else {
		o["type"] = A{"null", t}
	}
	return o
}

// Position embeds a property schema into a root schema (file s.json, root type S).
type Position struct {
	Name string
	Wrap func(l J, required bool) J
}

func req(required bool, names ...string) A {
	if !required {
		return A{}
	}
	a := A{}
	for _, n := range names {
		a = append(a, n)
	}
	return a
}

func obj(props J, required A) J {
	o := J{"type": "object", "properties": props}
	if len(required) > 0 {
		o["required"] = required
	}
	return o
}

// Positions returns the position alphabet. level 0 quick, 1 thorough.
func Positions(level int) []Position {
	ps := []Position{
		{"prop", func(l J, r bool) J { return obj(J{"p": l, "z": J{"type": "boolean"}}, req(r, "p")) }},
		{"nested", func(l J, r bool) J {
			return obj(J{"o": obj(J{"p": l}, req(r, "p"))}, A{"o"})
		}},
		{"item", func(l J, r bool) J { return obj(J{"a": J{"type": "array", "items": l}}, req(r, "a")) }},
		{"mapval", func(l J, r bool) J {
			return obj(J{"m": J{"type": "object", "additionalProperties": l}}, req(r, "m"))
		}},
		{"def", func(l J, r bool) J {
			o := obj(J{"p": J{"$ref": "#/$defs/D"}}, req(r, "p"))
			o["$defs"] = J{"D": l}
			return o
		}},
		{"root", func(l J, r bool) J { return cp(l) }},
		{"allof", func(l J, r bool) J {
			return obj(J{"c": J{"allOf": A{obj(J{"p": l}, req(r, "p")), obj(J{"q": J{"type": "integer"}}, nil)}}}, A{"c"})
		}},
		{"anyof", func(l J, r bool) J {
			return obj(J{"c": J{"anyOf": A{obj(J{"p": l}, req(r, "p")), obj(J{"q": J{"type": "integer"}}, A{"q"})}}}, A{"c"})
		}},
	}
	// a *typed* definition that carries the composite, referenced twice (one declaration, one set of methods)
	ps = append(ps,
		Position{"allof-def", func(l J, r bool) J {
			o := obj(J{"c": J{"$ref": "#/$defs/D"}, "c2": J{"$ref": "#/$defs/D"}}, A{"c"})
			o["$defs"] = J{"D": J{"type": "object", "allOf": A{obj(J{"p": l}, req(r, "p")), obj(J{"q": J{"type": "integer"}}, nil)}}}
			return o
		}},
		Position{"anyof-def", func(l J, r bool) J {
			o := obj(J{"c": J{"$ref": "#/$defs/D"}, "c2": J{"$ref": "#/$defs/D"}}, A{"c"})
			o["$defs"] = J{"D": J{"type": "object", "anyOf": A{obj(J{"p": l}, req(r, "p")), obj(J{"q": J{"type": "integer"}}, A{"q"})}}}
			return o
		}})
	// anyOf with a member given by reference (the member type is an alias of the definition's type)
	ps = append(ps,
		Position{"anyof-ref", func(l J, r bool) J {
			o := obj(J{"c": J{"anyOf": A{J{"$ref": "#/$defs/D"}, obj(J{"q": J{"type": "integer"}}, A{"q"})}}}, A{"c"})
			o["$defs"] = J{"D": obj(J{"p": l}, req(r, "p"))}
			return o
		}})
	if level >= 1 {
		ps = append(ps,
			Position{"item2", func(l J, r bool) J {
				return obj(J{"a": J{"type": "array", "items": J{"type": "array", "items": l}}}, req(r, "a"))
			}},
			Position{"defitem", func(l J, r bool) J {
				o := obj(J{"a": J{"type": "array", "items": J{"$ref": "#/definitions/D"}}}, req(r, "a"))
				o["definitions"] = J{"D": l}
				return o
			}},
			Position{"itemobj", func(l J, r bool) J {
				return obj(J{"a": J{"type": "array", "items": obj(J{"p": l}, req(r, "p"))}}, A{"a"})
			}},
			Position{"anyof-branch", func(l J, r bool) J {
				return obj(J{"c": J{"anyOf": A{l, obj(J{"q": J{"type": "integer"}}, A{"q"})}}}, req(r, "c"))
			}},
			Position{"anyof-branch-closed", func(l J, r bool) J {
				closed := obj(J{"q": J{"type": "integer"}}, A{"q"})
				closed["additionalProperties"] = false
				return obj(J{"c": J{"anyOf": A{closed, l}}}, req(r, "c"))
			}},
			Position{"allof-branch", func(l J, r bool) J {
				return obj(J{"c": J{"allOf": A{l, obj(J{"q": J{"type": "integer"}}, nil)}}}, req(r, "c"))
			}},
			Position{"addl", func(l J, r bool) J {
				o := obj(J{"k": J{"type": "string"}}, nil)
				o["additionalProperties"] = l
				return o
			}},
		)
	}
	return ps
}

// SortedKeys returns the sorted keys of a map.
func SortedKeys[T any](m map[string]T) []string {
	k := make([]string, 0, len(m))
	for s := range m {
		k = append(k, s)
	}
	sort.Strings(k)
	return k
}

// Subsets returns all subsets of {0..n-1} as bitmasks in increasing popcount order.
func Subsets(n int) []int {
	var out []int
	for pc := 0; pc <= n; pc++ {
		for m := 0; m < 1<<n; m++ {
			c := 0
			for x := m; x > 0; x &= x - 1 {
				c++
			}
			if c == pc {
				out = append(out, m)
			}
		}
	}
	return out
}

func Sprintf(f string, a ...any) string { return fmt.Sprintf(f, a...) }

// Package ws owns the scratch workspace of one check invocation.
package ws

import (
	"fmt"
	"os"
	"os/exec"
	"path/filepath"
	"strings"
)

// Root is the scratch directory (VERIF_SCRATCH, created by bin/check and removed by its trap).
func Root() string {
	r := os.Getenv("VERIF_SCRATCH")
	if r == "" {
		d, err := os.MkdirTemp("", "verif-scratch-")
		if err != nil {
			panic(err)
		}
		os.Setenv("VERIF_SCRATCH", d)
		r = d
	}
	return r
}

func Dir(parts ...string) string {
	p := filepath.Join(append([]string{Root()}, parts...)...)
	if err := os.MkdirAll(p, 0o755); err != nil {
		panic(err)
	}
	return p
}

// VerifDir is /verif (where evidence, replays and known findings live).
func VerifDir() string {
	if v := os.Getenv("VERIF_DIR"); v != "" {
		return v
	}
	return "/verif"
}

// RepoDir is the repository under test.
func RepoDir() string {
	if v := os.Getenv("VERIF_REPO"); v != "" {
		return v
	}
	return "/repo"
}

// HarnessDir is the harness module directory.
func HarnessDir() string { return filepath.Join(VerifDir(), "harness") }

// GoEnv is the environment for go commands run by the harness.
func GoEnv() []string {
	env := os.Environ()
	out := env[:0:0]
	for _, e := range env {
		if strings.HasPrefix(e, "GOFLAGS=") || strings.HasPrefix(e, "GOWORK=") {
			continue
		}
		out = append(out, e)
	}
	return append(out, "GOFLAGS=-mod=mod", "GOWORK=off", "GOPROXY=off", "GOSUMDB=off", "GOTOOLCHAIN=local")
}

// Go runs a go command in dir and returns combined output.
func Go(dir string, args ...string) (string, error) {
	cmd := exec.Command("go", args...)
	cmd.Dir = dir
	cmd.Env = GoEnv()
	b, err := cmd.CombinedOutput()
	if err != nil {
		return string(b), fmt.Errorf("go %s: %w", strings.Join(args, " "), err)
	}
	return string(b), nil
}

var cliPath string

// CLI builds (once per invocation) the real command-line binary from the repository under test and returns its path.
func CLI() (string, error) {
	if cliPath != "" {
		return cliPath, nil
	}
	out := filepath.Join(Root(), "gojsonschema")
	args := []string{"build"}
	if mf := os.Getenv("VERIF_MODFLAG"); mf != "" {
		args = append(args, mf)
	}
	args = append(args, "-o", out, "github.com/atombender/go-jsonschema")
	if msg, err := Go(HarnessDir(), args...); err != nil {
		return "", fmt.Errorf("%v: %s", err, msg)
	}
	cliPath = out
	return out, nil
}

var batchCache string

// BatchCacheEnv returns the environment for building the throw-away batch modules: GOCACHE points at a scratch copy
// (hard links) of a small base cache holding the standard library and the fixed dependencies, so that the tens of
// thousands of generated packages a check compiles never accumulate in the user's build cache. The base cache lives in
// /verif/.cache/gobase (not tracked; created by bin/setup or on first use).
func BatchCacheEnv() []string {
	env := GoEnv()
	if batchCache == "" {
		base := filepath.Join(VerifDir(), ".cache", "gobase")
		if _, err := os.Stat(filepath.Join(base, "README")); err != nil {
			if out, err := exec.Command(filepath.Join(VerifDir(), "bin", "mkbasecache")).CombinedOutput(); err != nil {
				fmt.Fprintf(os.Stderr, "HARNESS: cannot create the base build cache: %v\n%s\n", err, out)
				return env
			}
		}
		dst := filepath.Join(Root(), "gocache")
		if out, err := exec.Command("cp", "-al", base, dst).CombinedOutput(); err != nil {
			fmt.Fprintf(os.Stderr, "HARNESS: cannot link the base build cache: %v\n%s\n", err, out)
			return env
		}
		batchCache = dst
	}
	return append(env, "GOCACHE="+batchCache)
}

// GoBatch runs a go command for a batch module (see BatchCacheEnv).
func GoBatch(dir string, args ...string) (string, error) {
	cmd := exec.Command("go", args...)
	cmd.Dir = dir
	cmd.Env = BatchCacheEnv()
	b, err := cmd.CombinedOutput()
	if err != nil {
		return string(b), fmt.Errorf("go %s: %w", strings.Join(args, " "), err)
	}
	return string(b), nil
}

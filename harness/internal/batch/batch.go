// Package batch turns N freshly generated programs into driver binaries built
// with the real toolchain, runs decode tasks in them and returns observations.
package batch

import (
	"bufio"
	"bytes"
	"encoding/json"
	"fmt"
	"go/ast"
	"go/parser"
	"go/token"
	"os"
	"os/exec"
	"path/filepath"
	"regexp"
	"runtime"
	"sort"
	"strings"
	"sync"

	"verif/drv"
	"verif/internal/genlab"
	"verif/internal/ws"
)

// Program is one generated package.
type Program struct {
	Case genlab.Case
	// filled by Build:
	Pkg       string   // s000123
	GenErr    string   // generator error / panic / crash (no package)
	BuildErr  string   // compiler diagnostics (package excluded from the drivers)
	Types     []string // top-level type names
	Unmarsh   []string // types having UnmarshalJSON
	Warnings  []string
	SourceSig string // hash of the emitted source
	Source    string // emitted source (single output)
}

// Batch is a set of programs sharing driver binaries.
type Batch struct {
	Dir      string
	Programs []*Program
	shards   [][]*Program
	bins     []string
	Pool     *genlab.Pool
}

var pkgLine = regexp.MustCompile(`(?m)^# vbatch/p/(s\d+)`)

// Build generates every program, compiles the packages and links the drivers.
func Build(pool *genlab.Pool, name string, cases []genlab.Case) (*Batch, error) {
	b := &Batch{Dir: ws.Dir("batch-" + name), Pool: pool}
	mod := fmt.Sprintf("module vbatch\n\ngo 1.23.0\n\nrequire (\n\tverif v0.0.0\n\tgithub.com/atombender/go-jsonschema v0.0.0\n\tgithub.com/go-viper/mapstructure/v2 v2.1.0\n\tgopkg.in/yaml.v3 v3.0.1\n)\n\nreplace verif => %s\n\nreplace github.com/atombender/go-jsonschema => %s\n", ws.HarnessDir(), ws.RepoDir())
	if err := os.WriteFile(filepath.Join(b.Dir, "go.mod"), []byte(mod), 0o644); err != nil {
		return nil, err
	}
	sum, _ := os.ReadFile(filepath.Join(ws.HarnessDir(), "go.sum"))
	_ = os.WriteFile(filepath.Join(b.Dir, "go.sum"), sum, 0o644)
	jobs := make([]genlab.Job, len(cases))
	for i := range cases {
		p := &Program{Case: cases[i], Pkg: fmt.Sprintf("s%06d", i)}
		b.Programs = append(b.Programs, p)
		c := cases[i]
		jobs[i] = genlab.Job{Op: "gen", Case: &c, KeepOutputs: true, WriteTo: filepath.Join(b.Dir, "p", p.Pkg)}
	}
	err := pool.Run(jobs, func(j *genlab.Job, r *genlab.Resp) {
		p := b.Programs[j.Seq]
		p.Warnings = r.Res.Warnings
		switch {
		case r.Crash != "":
			p.GenErr = "CRASH: " + r.Crash
		case r.Hang:
			p.GenErr = "HANG"
		case r.Res.Panic != "":
			p.GenErr = "PANIC: " + r.Res.Panic
		case r.Res.Err != "":
			p.GenErr = "ERROR: " + r.Res.Err
		case len(r.Res.Outputs) == 0:
			p.GenErr = "NO-OUTPUT"
		default:
			var parts []string
			for _, n := range r.Res.OutputNames() {
				parts = append(parts, r.Res.Outputs[n])
			}
			p.Source = strings.Join(parts, "\n")
			p.SourceSig = genlab.Hash(p.Source)
		}
	})
	if err != nil {
		return nil, err
	}
	// registry files
	var wg sync.WaitGroup
	sem := make(chan struct{}, runtime.NumCPU())
	for _, p := range b.Programs {
		if p.GenErr != "" {
			os.RemoveAll(filepath.Join(b.Dir, "p", p.Pkg))
			continue
		}
		wg.Add(1)
		sem <- struct{}{}
		go func(p *Program) {
			defer wg.Done()
			defer func() { <-sem }()
			b.writeReg(p)
		}(p)
	}
	wg.Wait()
	// compile all packages; failing ones are set aside
	out, _ := ws.GoBatch(b.Dir, "build", "./p/...")
	if strings.Contains(out, "go: ") && !pkgLine.MatchString(out) && strings.TrimSpace(out) != "" {
		return nil, fmt.Errorf("batch build failed: %s", out)
	}
	b.attributeBuildErrors(out)
	// shards
	var ok []*Program
	for _, p := range b.Programs {
		if p.GenErr == "" && p.BuildErr == "" {
			ok = append(ok, p)
		}
	}
	n := runtime.NumCPU()
	if len(ok) < n*4 {
		n = (len(ok) + 3) / 4
	}
	if n < 1 {
		n = 1
	}
	b.shards = make([][]*Program, n)
	for i, p := range ok {
		b.shards[i%n] = append(b.shards[i%n], p)
	}
	for i, sh := range b.shards {
		d := filepath.Join(b.Dir, "cmd", fmt.Sprintf("shard%02d", i))
		os.MkdirAll(d, 0o755)
		var sb strings.Builder
		sb.WriteString("package main\n\nimport (\n\t\"verif/drv\"\n")
		for _, p := range sh {
			fmt.Fprintf(&sb, "\t_ \"vbatch/p/%s\"\n", p.Pkg)
		}
		sb.WriteString(")\n\nfunc main() { drv.Main() }\n")
		os.WriteFile(filepath.Join(d, "main.go"), []byte(sb.String()), 0o644)
	}
	os.MkdirAll(filepath.Join(b.Dir, "bin"), 0o755)
	out, err = ws.GoBatch(b.Dir, "build", "-o", filepath.Join(b.Dir, "bin")+"/", "./cmd/...")
	if err != nil {
		return nil, fmt.Errorf("driver build failed: %v\n%s", err, out)
	}
	for i := range b.shards {
		b.bins = append(b.bins, filepath.Join(b.Dir, "bin", fmt.Sprintf("shard%02d", i)))
	}
	return b, nil
}

func (b *Batch) attributeBuildErrors(out string) {
	idx := pkgLine.FindAllStringSubmatchIndex(out, -1)
	byPkg := map[string]string{}
	for i, m := range idx {
		end := len(out)
		if i+1 < len(idx) {
			end = idx[i+1][0]
		}
		pkg := out[m[2]:m[3]]
		body := out[m[1]:end]
		// strip the scratch paths
		var lines []string
		for _, l := range strings.Split(strings.TrimSpace(body), "\n") {
			if j := strings.Index(l, ".go:"); j >= 0 {
				l = l[j+1:]
			}
			lines = append(lines, l)
		}
		byPkg[pkg] = strings.Join(lines, "\n")
	}
	for _, p := range b.Programs {
		if e, ok := byPkg[p.Pkg]; ok {
			p.BuildErr = e
		}
	}
}

func (b *Batch) writeReg(p *Program) {
	dir := filepath.Join(b.Dir, "p", p.Pkg)
	fset := token.NewFileSet()
	entries, _ := os.ReadDir(dir)
	pkgName := ""
	um := map[string]bool{}
	for _, e := range entries {
		if !strings.HasSuffix(e.Name(), ".go") {
			continue
		}
		f, err := parser.ParseFile(fset, filepath.Join(dir, e.Name()), nil, parser.SkipObjectResolution)
		if err != nil {
			p.BuildErr = "parse: " + err.Error()
			return
		}
		pkgName = f.Name.Name
		for _, d := range f.Decls {
			switch x := d.(type) {
			case *ast.GenDecl:
				if x.Tok != token.TYPE {
					continue
				}
				for _, sp := range x.Specs {
					ts := sp.(*ast.TypeSpec)
					if ts.Name.IsExported() && ts.TypeParams == nil {
						p.Types = append(p.Types, ts.Name.Name)
					}
				}
			case *ast.FuncDecl:
				if x.Recv != nil && x.Name.Name == "UnmarshalJSON" && len(x.Recv.List) == 1 {
					if st, ok := x.Recv.List[0].Type.(*ast.StarExpr); ok {
						if id, ok := st.X.(*ast.Ident); ok {
							um[id.Name] = true
						}
					}
				}
			}
		}
	}
	sort.Strings(p.Types)
	for _, t := range p.Types {
		if um[t] {
			p.Unmarsh = append(p.Unmarsh, t)
		}
	}
	var sb strings.Builder
	fmt.Fprintf(&sb, "package %s\n\nimport \"verif/drv\"\n\nfunc init() {\n\tdrv.Register(%q, map[string]func() any{\n", pkgName, p.Pkg)
	for _, t := range p.Types {
		fmt.Fprintf(&sb, "\t\t%q: func() any { return new(%s) },\n", t, t)
	}
	sb.WriteString("\t})\n}\n")
	os.WriteFile(filepath.Join(dir, "zz_reg.go"), []byte(sb.String()), 0o644)
}

// Task is a decode request addressed to a program.
type Task struct {
	Prog  *Program
	Type  string
	Mode  string
	Doc   string
	Prior string
	Tag   any // caller data
}

// Run executes the tasks (grouped by shard, shards in parallel) and calls fn for each observation (serialised).
func (b *Batch) Run(tasks []Task, fn func(t *Task, o *drv.Obs)) error {
	shardOf := map[string]int{}
	for i, sh := range b.shards {
		for _, p := range sh {
			shardOf[p.Pkg] = i
		}
	}
	per := make([][]int, len(b.shards))
	for i := range tasks {
		s, ok := shardOf[tasks[i].Prog.Pkg]
		if !ok {
			continue
		}
		per[s] = append(per[s], i)
	}
	var mu sync.Mutex
	var wg sync.WaitGroup
	var firstErr error
	for s := range per {
		if len(per[s]) == 0 {
			continue
		}
		wg.Add(1)
		go func(s int) {
			defer wg.Done()
			if err := b.runShard(s, per[s], tasks, &mu, fn); err != nil {
				mu.Lock()
				if firstErr == nil {
					firstErr = err
				}
				mu.Unlock()
			}
		}(s)
	}
	wg.Wait()
	return firstErr
}

func (b *Batch) runShard(s int, idx []int, tasks []Task, mu *sync.Mutex, fn func(t *Task, o *drv.Obs)) error {
	// The driver may die on a fatal error (stack overflow in generated code): restart after the offending task.
	pos := 0
	for pos < len(idx) {
		cmd := exec.Command(b.bins[s])
		cmd.Env = append(os.Environ(), "GOMAXPROCS=2", "GOGC=400")
		var input bytes.Buffer
		enc := json.NewEncoder(&input)
		enc.SetEscapeHTML(false)
		for _, i := range idx[pos:] {
			t := &tasks[i]
			typ := t.Type
			if typ == "" {
				typ = "S"
			}
			enc.Encode(drv.Task{I: i, Pkg: t.Prog.Pkg, Type: typ, Mode: t.Mode, Doc: t.Doc, Prior: t.Prior})
		}
		cmd.Stdin = &input
		var stderr bytes.Buffer
		cmd.Stderr = &stderr
		out, err := cmd.StdoutPipe()
		if err != nil {
			return err
		}
		if err := cmd.Start(); err != nil {
			return err
		}
		sc := bufio.NewScanner(out)
		sc.Buffer(make([]byte, 1<<20), 1<<28)
		done := 0
		for sc.Scan() {
			var o drv.Obs
			if err := json.Unmarshal(sc.Bytes(), &o); err != nil {
				return fmt.Errorf("driver output: %v: %.200s", err, sc.Text())
			}
			mu.Lock()
			fn(&tasks[o.I], &o)
			mu.Unlock()
			done++
		}
		werr := cmd.Wait()
		if done == len(idx)-pos {
			return nil
		}
		// the task after the last answered one killed the driver
		bad := idx[pos+done]
		msg := stderr.String()
		if len(msg) > 1500 {
			msg = msg[:1500]
		}
		mu.Lock()
		fn(&tasks[bad], &drv.Obs{I: bad, Panic: fmt.Sprintf("FATAL (driver died: %v): %s", werr, msg)})
		mu.Unlock()
		pos += done + 1
	}
	return nil
}

// Cleanup removes the batch directory.
func (b *Batch) Cleanup() { os.RemoveAll(b.Dir) }

// RunBulk executes bulk tasks (C19): docs(t) supplies the documents and priors of each task.
func (b *Batch) RunBulk(tasks []Task, docs func(t *Task) ([]string, []string), fn func(t *Task, o *drv.Obs)) error {
	shardOf := map[string]int{}
	for i, sh := range b.shards {
		for _, p := range sh {
			shardOf[p.Pkg] = i
		}
	}
	per := make([][]int, len(b.shards))
	for i := range tasks {
		if s, ok := shardOf[tasks[i].Prog.Pkg]; ok {
			per[s] = append(per[s], i)
		}
	}
	var mu sync.Mutex
	var wg sync.WaitGroup
	var firstErr error
	for s := range per {
		if len(per[s]) == 0 {
			continue
		}
		wg.Add(1)
		go func(s int) {
			defer wg.Done()
			pos := 0
			idx := per[s]
			for pos < len(idx) {
				cmd := exec.Command(b.bins[s])
				cmd.Env = append(os.Environ(), "GOMAXPROCS=2", "GOGC=400")
				pr, pw, _ := os.Pipe()
				cmd.Stdin = pr
				var stderr bytes.Buffer
				cmd.Stderr = &stderr
				out, _ := cmd.StdoutPipe()
				if err := cmd.Start(); err != nil {
					mu.Lock()
					firstErr = err
					mu.Unlock()
					return
				}
				pr.Close()
				go func(from int) {
					enc := json.NewEncoder(pw)
					enc.SetEscapeHTML(false)
					var last []string
					for _, i := range idx[from:] {
						t := &tasks[i]
						ds, qs := docs(t)
						if len(last) > 0 && len(ds) == len(last) && &ds[0] == &last[0] {
							enc.Encode(drv.Task{I: i, Pkg: t.Prog.Pkg, Type: t.Type, Mode: t.Mode, Same: true, Priors: qs})
							continue
						}
						last = ds
						enc.Encode(drv.Task{I: i, Pkg: t.Prog.Pkg, Type: t.Type, Mode: t.Mode, Docs: ds, Priors: qs})
					}
					pw.Close()
				}(pos)
				sc := bufio.NewScanner(out)
				sc.Buffer(make([]byte, 1<<20), 1<<28)
				done := 0
				for sc.Scan() {
					var o drv.Obs
					if err := json.Unmarshal(sc.Bytes(), &o); err != nil {
						continue
					}
					mu.Lock()
					fn(&tasks[o.I], &o)
					mu.Unlock()
					done++
				}
				werr := cmd.Wait()
				if done == len(idx)-pos {
					break
				}
				bad := idx[pos+done]
				msg := stderr.String()
				if len(msg) > 1500 {
					msg = msg[:1500]
				}
				mu.Lock()
				fn(&tasks[bad], &drv.Obs{I: bad, N: 1, Bads: []drv.Bad{{Doc: 0, Prior: -1, Panic: fmt.Sprintf("FATAL (driver died: %v): %s", werr, msg)}}})
				mu.Unlock()
				pos += done + 1
				pw.Close()
			}
		}(s)
	}
	wg.Wait()
	return firstErr
}

// Package refmodel is the reference model: a direct evaluator of the supported
// JSON-Schema subset plus the decode contract the properties state. It knows
// nothing about how the generator works. Numbers are exact rationals.
//
// The model has a TRUE mode (the property statements) and named, individually
// switchable deviations, each bending exactly one rule the way the current
// implementation does (see known_findings.json). A deviation records whether
// it fired, i.e. changed the outcome of its rule on this evaluation.
package refmodel

import (
	"encoding/base64"
	"encoding/json"
	"fmt"
	"math"
	"math/big"
	"path"
	"regexp"
	"sort"
	"strings"
	"unicode/utf8"

	"verif/internal/jsonv"
)

type Verdict int

const (
	Accept Verdict = iota
	Reject
	Unspec // the property statements do not define the outcome
)

func (v Verdict) String() string { return [...]string{"accept", "reject", "unspecified"}[v] }

type S = map[string]any

// Model evaluates documents against a set of schema files.
type Model struct {
	Files map[string]S    // file path (relative to the case dir) -> parsed schema
	Root  string          // root file
	Dev   map[string]bool // enabled deviations
	Fired map[string]bool // deviations that changed a rule's outcome during the last evaluation
	Why   string          // first rejection reason of the last evaluation
	// MinSized: the program was generated with --min-sized-ints (affects nothing in TRUE mode).
	MinSized bool
	// EnumNullJudged: C08's statement quantifies over values of every JSON type, null included ("accepted iff JSON-equal to a
	// listed value"); the other statements leave null at a non-nullable position undefined. Set by C08 only.
	EnumNullJudged bool
	leaks          map[string]map[string][]leak // see mergeLeaks
}

// New builds a model from schema texts.
func New(files map[string]string, root string) (*Model, error) {
	m := &Model{Files: map[string]S{}, Root: root, Dev: map[string]bool{}, Fired: map[string]bool{}}
	for p, t := range files {
		v, err := jsonv.Parse(t)
		if err != nil {
			if !strings.HasSuffix(p, ".json") {
				continue // YAML files are only modelled when written in flow (JSON) style
			}
			return nil, fmt.Errorf("%s: %w", p, err)
		}
		if o, ok := v.(map[string]any); ok {
			m.Files[p] = o
		}
	}
	if _, ok := m.Files[root]; !ok {
		return nil, fmt.Errorf("root %s is not a JSON object schema", root)
	}
	return m, nil
}

func (m *Model) dev(name string) bool { return m.Dev[name] }

func (m *Model) fire(name string) { m.Fired[name] = true }

// Pos describes where a schema node sits (what the statements call the position).
type Pos struct {
	Kind            string // root prop item mapval addl branch
	Optional        bool   // property that may be absent (not required, or has a default)
	Named           bool   // reached through $ref (a named definition) or is the root schema
	File            string
	ArrDepth        int            // number of enclosing inline arrays (item positions)
	Outer           S              // outermost inline array schema of a nest (for NESTED_ARRAY_OUTER_LIMITS)
	InMap           bool           // this node is a map value / additional property
	ParentNoMethods bool           // property of an object emitted as an inline struct without unmarshal method
	InNamedArr      bool           // item of an array that is itself a named definition / the root
	InMapArr        bool           // item of an (inline) array that is the value of a pure map: emitted inline below the map type
	UnionDeclared   map[string]any // evaluating an allOf / anyOf branch: properties declared by any branch (the generated struct has them all)
	DefStack        []string       // definitions (file#name) whose evaluation encloses this node: a $ref to one of them is a cycle
	RefBranch       bool           // inside an allOf / anyOf branch that is a $ref to a definition (the definition's schema is visited a second time by the merge)
	Path            string
}

func (m *Model) RootPos() Pos { return Pos{Kind: "root", Named: true, File: m.Root} }

// RootSchema returns the root schema node.
func (m *Model) RootSchema() any { return m.Files[m.Root] }

// Valid evaluates the root schema on a document.
func (m *Model) Valid(doc any) Verdict {
	m.Fired = map[string]bool{}
	m.Why = ""
	return m.valid(m.RootSchema(), doc, m.RootPos())
}

func (m *Model) reject(p Pos, f string, a ...any) Verdict {
	if m.Why == "" {
		m.Why = p.Path + ": " + fmt.Sprintf(f, a...)
	}
	return Reject
}

// Resolve follows a $ref. Returns the target schema and the file it lives in.
func (m *Model) Resolve(ref, file string) (any, string, error) {
	f, frag := ref, ""
	if i := strings.IndexByte(ref, '#'); i >= 0 {
		f, frag = ref[:i], ref[i+1:]
	}
	target := file
	if f != "" {
		f = strings.TrimPrefix(f, "file://")
		target = path.Join(path.Dir(file), f)
		if _, ok := m.Files[target]; !ok {
			if _, ok2 := m.Files[target+".json"]; ok2 {
				target += ".json"
			} else if _, ok3 := m.Files[target+".yaml"]; ok3 {
				target += ".yaml"
			}
		}
	}
	root, ok := m.Files[target]
	if !ok {
		return nil, "", fmt.Errorf("model: file %q not found (ref %q from %q)", target, ref, file)
	}
	if frag == "" {
		return root, target, nil
	}
	for _, pre := range []string{"/$defs/", "/definitions/"} {
		if strings.HasPrefix(frag, pre) {
			name := frag[len(pre):]
			for _, key := range []string{"$defs", "definitions"} {
				if defs, ok := root[key].(map[string]any); ok {
					if d, ok := defs[name]; ok {
						return d, target, nil
					}
				}
			}
			return nil, "", fmt.Errorf("model: definition %q not found", name)
		}
	}
	return nil, "", fmt.Errorf("model: unsupported pointer %q", ref)
}

func typeList(s S) []string {
	switch t := s["type"].(type) {
	case string:
		return []string{t}
	case []any:
		var o []string
		for _, x := range t {
			if str, ok := x.(string); ok {
				o = append(o, str)
			}
		}
		return o
	}
	return nil
}

func has(l []string, x string) bool {
	for _, y := range l {
		if x == y {
			return true
		}
	}
	return false
}

// nonNullTypes returns the types other than null.
func nonNullTypes(tl []string) []string {
	var o []string
	for _, t := range tl {
		if t != "null" {
			o = append(o, t)
		}
	}
	return o
}

func rat(v any) *big.Rat {
	r, ok := jsonv.Rat(v)
	if !ok {
		return nil
	}
	return r
}

func isIntegral(r *big.Rat) bool { return r.IsInt() }

var (
	maxI64 = new(big.Rat).SetInt64(math.MaxInt64)
	minI64 = new(big.Rat).SetInt64(math.MinInt64)
	maxF64 = new(big.Rat).SetFloat64(math.MaxFloat64)
)

func (m *Model) valid(sn any, v any, p Pos) Verdict {
	switch b := sn.(type) {
	case bool:
		if b {
			return Accept
		}
		return m.reject(p, "schema false")
	case nil:
		return Unspec
	}
	s, ok := sn.(map[string]any)
	if !ok {
		return Unspec
	}
	if ref, ok := s["$ref"].(string); ok {
		t, file, err := m.Resolve(ref, p.File)
		if err != nil {
			return Unspec
		}
		if p.Kind == "addl" && v != nil && m.dev("ADDL_NONPRIMITIVE_UNTYPED") {
			// as built: additionalProperties given by reference next to properties is not one of the primitive cases: the catch-all
			// field is map[string]interface{} and nothing is checked
			if m.valid(t, v, Pos{Kind: "root", Named: true, File: file}) != Accept {
				m.fire("ADDL_NONPRIMITIVE_UNTYPED")
			}
			return Accept
		}
		np := p
		np.File = file
		np.Named = true
		np.ArrDepth = 0
		np.Outer = nil
		np.InNamedArr = false
		np.ParentNoMethods = false
		np.RefBranch = p.Kind == "branch"
		np.DefStack = append(append([]string{}, p.DefStack...), file+"|"+ref[strings.IndexByte(ref+"#", '#'):])
		if m.dev("SAME_NAME_ANYOF_DIFFERENCE_IGNORED") && strings.HasPrefix(ref, "#/") {
			// as built: two definitions that normalise to one Go name are compared with every anyOf list ignored; the one generated
			// later (definitions are generated in name order) is folded into the earlier one when nothing else differs
			if o := m.foldedInto(ref, file); o != nil {
				m.fire("SAME_NAME_ANYOF_DIFFERENCE_IGNORED")
				t = o
			}
		}
		if ts, ok := t.(map[string]any); ok && m.dev("REF_UNTYPED_DEF_IS_ANY") && strings.Contains(ref, "#/") {
			// as built: a $ref to a definition without type and without properties becomes interface{}
			if _, hasType := ts["type"]; !hasType {
				if _, hasProps := ts["properties"]; !hasProps {
					if len(ts) > 0 {
						m.fire("REF_UNTYPED_DEF_IS_ANY")
					}
					return Accept
				}
			}
		}
		return m.valid(t, v, np)
	}
	tl := typeList(s)
	enum, hasEnum := s["enum"].([]any)
	if r, done := m.asBuiltEarly(s, tl, hasEnum, v, p); done {
		return r
	}
	if v == nil {
		switch {
		case hasEnum:
			for _, e := range enum {
				if e == nil {
					return Accept
				}
			}
		case len(tl) == 0 && !hasComposite(s):
			return Accept
		case has(tl, "null"):
			return Accept
		}
		if hasEnum && m.EnumNullJudged && !(p.Kind == "prop" && p.Optional) {
			// null reaches the enum itself (required property, array item, map value, root) and is not listed
			if m.dev("NULL_ENUM_ZERO_MEMBER_ACCEPTED") && enumListsZero(enum) {
				// as built: null is decoded into the Go zero value of the enum's carrier type, which is then looked up in the table
				m.fire("NULL_ENUM_ZERO_MEMBER_ACCEPTED")
				return Accept
			}
			return m.reject(p, "null is not in enum")
		}
		if p.Kind == "prop" && p.Optional {
			_, hasDefault := s["default"]
			nn := nonNullTypes(tl)
			if hasDefault {
				return Accept // "absent (or null) -> default", also for enum-typed properties
			}
			if !hasEnum && len(nn) == 1 && (nn[0] == "string" || nn[0] == "number" || nn[0] == "integer" || nn[0] == "array") {
				return Accept // "an absent or null optional value is never checked"
			}
		}
		return Unspec
	}
	nn := nonNullTypes(tl)
	if len(nn) > 1 {
		return Unspec // several non-null types: documented as unsupported (interface{})
	}
	if hasEnum {
		for _, e := range enum {
			if jsonv.Equal(e, v) {
				if len(nn) == 1 && !m.typeOK(nn[0], v) {
					break
				}
				// a listed value still has to satisfy the other keywords stated next to the enum
				c := Accept
				saveWhy := m.Why
				switch x := v.(type) {
				case string:
					if constrained("string", s) {
						c = m.str(s, x, p)
					}
				default:
					if jsonv.Kind(v) == "number" && constrained("numeric", s) {
						c = m.numeric(s, v, p, len(nn) == 1 && nn[0] == "integer")
					}
				}
				if c == Reject && m.dev("ENUM_SIBLING_CONSTRAINTS_IGNORED") {
					// as built: an enum type gets the membership check only; bounds, length limits and pattern stated next to it are dropped
					m.fire("ENUM_SIBLING_CONSTRAINTS_IGNORED")
					m.Why = saveWhy
					return Accept
				}
				return c
			}
		}
		return m.reject(p, "not in enum")
	}
	kind := jsonv.Kind(v)
	if len(nn) == 1 {
		t := nn[0]
		switch t {
		case "integer":
			if kind != "number" {
				return m.reject(p, "type: want integer, got %s", kind)
			}
			r := rat(v)
			if r == nil {
				return Unspec
			}
			if !isIntegral(r) {
				return m.reject(p, "type: want integer, got non-integral number")
			}
			if strings.ContainsAny(string(numText(v)), ".eE") {
				return Unspec // integral value spelled with fraction/exponent
			}
			if r.Cmp(maxI64) > 0 || r.Cmp(minI64) < 0 {
				return Unspec
			}
		case "number":
			if kind != "number" {
				return m.reject(p, "type: want number, got %s", kind)
			}
			r := rat(v)
			if r == nil || new(big.Rat).Abs(r).Cmp(maxF64) > 0 {
				return Unspec
			}
		case "null":
			return m.reject(p, "type: want null, got %s", kind)
		default:
			if t == "array" && kind == "string" && m.MinSized && m.dev("SIZED_UINT8_ARRAY_IS_BYTES") && m.sizedUint8(s["items"], p.File) {
				// as built: the element type is uint8, so the field is a []byte and encoding/json takes a base64 string for it
				if b, err := base64.StdEncoding.DecodeString(v.(string)); err == nil {
					m.fire("SIZED_UINT8_ARRAY_IS_BYTES")
					if !m.itemsOK(s, len(b), true) {
						return m.reject(p, "items count %d (base64)", len(b))
					}
					return Accept
				}
			}
			if t != kind {
				return m.reject(p, "type: want %s, got %s", t, kind)
			}
		}
	} else if len(tl) == 1 && tl[0] == "null" {
		return m.reject(p, "type: want null, got %s", kind)
	}
	res := Accept
	join := func(x Verdict) {
		if x == Reject || (x == Unspec && res == Accept) {
			res = x
		}
	}
	switch kind {
	case "number":
		join(m.numeric(s, v, p, len(nn) == 1 && nn[0] == "integer"))
	case "string":
		join(m.str(s, v.(string), p))
	case "array":
		join(m.array(s, v.([]any), p))
	case "object":
		if m.dev("COMPOSITE_SIBLING_KEYWORDS_DROPPED") && hasComposite(s) && (s["properties"] != nil || s["required"] != nil) {
			// as built: an object schema that carries allOf / anyOf is generated from the composite alone; its own properties,
			// required list and additionalProperties are never looked at
			own := map[string]any{}
			for k, e := range s {
				if k == "properties" || k == "required" || k == "additionalProperties" {
					own[k] = e
				}
			}
			if m.object(own, v.(map[string]any), p) != Accept {
				m.fire("COMPOSITE_SIBLING_KEYWORDS_DROPPED")
			}
		} else {
			join(m.object(s, v.(map[string]any), p))
		}
	}
	if res == Reject {
		return res
	}
	var union map[string]any
	if hasComposite(s) {
		props := map[string]propAt{}
		m.declaredProps(s, p.File, props, 0)
		union = map[string]any{}
		for k, pa := range props {
			union[k] = pa.s
		}
	}
	if m.dev("NULL_FIRST_OBJECT_BRANCHES_ARE_ANY") {
		// as built: the merge classifies a branch by Type[0]; when every typed branch of a composite list is a nullable object
		// spelled null-first (["null","object"]) the list counts as primitive, the merged type is empty and the position is interface{}
		for _, ck := range []string{"allOf", "anyOf"} {
			if list, ok := s[ck].([]any); ok && len(list) > 0 && m.allNullFirstObjects(list, p.File) {
				m.fire("NULL_FIRST_OBJECT_BRANCHES_ARE_ANY")
				return Accept
			}
		}
	}
	if all, ok := s["allOf"].([]any); ok {
		if m.dev("RECURSIVE_ALLOF_UNROLLED_THEN_ANY") && m.cyclicCount(all, p) >= 3 {
			// as built: a member that refers back to a definition under generation is expanded (merged and generated anew) until the
			// same schema node is met for the third time, where the position becomes interface{}
			m.fire("RECURSIVE_ALLOF_UNROLLED_THEN_ANY")
			return res
		}
		if m.dev("ALLOF_MERGE_MUTATES_SHARED_DEFINITION") && len(all) > 0 {
			all = m.leakInto(all, p.File)
		}
		if m.dev("ALLOF_FIRST_WINS") {
			all = m.firstWins(all, p.File)
		}
		for i, b := range all {
			bp := p
			bp.UnionDeclared = union
			bp.Kind = "branch"
			bp.Path = fmt.Sprintf("%s/allOf[%d]", p.Path, i)
			join(m.valid(b, v, bp))
			if res == Reject {
				return res
			}
		}
	}
	if anyOf, ok := s["anyOf"].([]any); ok && len(anyOf) > 0 {
		if m.dev("RECURSIVE_ANYOF_IS_ANY") && m.cyclicBranch(anyOf, p) {
			// as built: an anyOf with a branch that refers back to a definition being generated becomes interface{}
			m.fire("RECURSIVE_ANYOF_IS_ANY")
			return res
		}
		best := Reject
		saveWhy := m.Why
		for i, b := range anyOf {
			bp := p
			bp.UnionDeclared = union
			bp.Kind = "branch"
			bp.Path = fmt.Sprintf("%s/anyOf[%d]", p.Path, i)
			x := m.valid(b, v, bp)
			if x == Accept {
				best = Accept
				break
			}
			if x == Unspec {
				best = Unspec
			}
		}
		if best != Reject {
			m.Why = saveWhy
		} else if m.Why == "" {
			m.Why = p.Path + ": no anyOf branch accepts"
		}
		join(best)
		if res != Reject && m.dev("ANYOF_MERGED_FIELD_TYPES") {
			// as built: after one branch accepted, the value is decoded into the struct merged from all branches, so the
			// Go field type of every declared property applies even if the accepting branch does not declare it
			if obj, ok := v.(map[string]any); ok {
				props := map[string]propAt{}
				m.declaredProps(s, p.File, props, 0)
				for k, pa := range props {
					val, present := obj[k]
					if !present || val == nil {
						continue
					}
					if !m.goTypeCompatible(pa.s, val, pa.file) {
						m.fire("ANYOF_MERGED_FIELD_TYPES")
						return m.reject(p, "as built: %q does not fit the merged struct field", k)
					}
				}
			}
		}
	}
	return res
}

// goTypeCompatible: would encoding/json store val into the Go field generated for schema sn (type only, no validators)?
func (m *Model) goTypeCompatible(sn any, val any, file string) bool {
	s, ok := sn.(map[string]any)
	if !ok {
		return true
	}
	if ref, ok := s["$ref"].(string); ok {
		t, f, err := m.Resolve(ref, file)
		if err != nil {
			return true
		}
		return m.goTypeCompatible(t, val, f)
	}
	if _, ok := s["enum"]; ok {
		return true
	}
	nn := nonNullTypes(typeList(s))
	if len(nn) != 1 {
		return true
	}
	k := jsonv.Kind(val)
	switch nn[0] {
	case "string":
		if _, isFmt := s["format"]; isFmt {
			return true
		}
		return k == "string"
	case "integer":
		r := rat(val)
		return k == "number" && r != nil && r.IsInt()
	case "number":
		return k == "number"
	case "boolean":
		return k == "boolean"
	case "array":
		return k == "array"
	case "object":
		return k == "object"
	}
	return true
}

func hasComposite(s S) bool {
	_, a := s["allOf"]
	_, b := s["anyOf"]
	return a || b
}

func numText(v any) json.Number {
	if n, ok := v.(json.Number); ok {
		return n
	}
	return json.Number(fmt.Sprint(v))
}

func (m *Model) typeOK(t string, v any) bool {
	k := jsonv.Kind(v)
	switch t {
	case "integer":
		r := rat(v)
		return k == "number" && r != nil && isIntegral(r)
	case "number":
		return k == "number"
	}
	return t == k
}

func (m *Model) numeric(s S, v any, p Pos, isInt bool) Verdict {
	x := rat(v)
	if x == nil {
		return Unspec
	}
	if m.unenforced(p, "numeric", s) {
		return Accept
	}
	bound := func(key string) *big.Rat {
		b, ok := s[key]
		if !ok {
			return nil
		}
		if _, isBool := b.(bool); isBool {
			return nil
		}
		r := rat(b)
		if r != nil && isInt && !r.IsInt() && m.dev("INT_BOUND_TRUNCATED") {
			// as built: the bound is truncated toward zero
			f, _ := r.Float64()
			t := new(big.Rat).SetInt64(int64(f))
			m.fire("INT_BOUND_TRUNCATED")
			return t
		}
		return r
	}
	flag := func(key string) bool { b, _ := s[key].(bool); return b }
	if isInt && m.MinSized && p.RefBranch && m.dev("SIZED_BOUNDS_STRIPPED_FROM_SHARED_SCHEMA") {
		// as built: --min-sized-ints clears the bounds implied by the chosen Go type *in the schema itself*; when the merge of a
		// composite list visits the property schema of a $ref'd definition a second time, those bounds are gone: the field of
		// the merged struct gets a wider type and no check for them
		_, e1 := s["exclusiveMinimum"]
		_, e2 := s["exclusiveMaximum"]
		if !e1 && !e2 {
			mn, mx := bound("minimum"), bound("maximum")
			dropMin, dropMax := sizedStrip(mn, mx)
			if dropMin && x.Cmp(mn) < 0 {
				m.fire("SIZED_BOUNDS_STRIPPED_FROM_SHARED_SCHEMA")
			}
			if dropMax && x.Cmp(mx) > 0 {
				m.fire("SIZED_BOUNDS_STRIPPED_FROM_SHARED_SCHEMA")
			}
			if (!dropMin && mn != nil && x.Cmp(mn) < 0) || (!dropMax && mx != nil && x.Cmp(mx) > 0) {
				return m.reject(p, "bounds (as built, after stripping)")
			}
			return Accept
		}
	}
	if mn := bound("minimum"); mn != nil {
		c := x.Cmp(mn)
		if c < 0 || (c == 0 && flag("exclusiveMinimum")) {
			return m.reject(p, "minimum %s", mn.RatString())
		}
	}
	if mx := bound("maximum"); mx != nil {
		c := x.Cmp(mx)
		if c > 0 || (c == 0 && flag("exclusiveMaximum")) {
			return m.reject(p, "maximum %s", mx.RatString())
		}
	}
	if e := bound("exclusiveMinimum"); e != nil && x.Cmp(e) <= 0 {
		return m.reject(p, "exclusiveMinimum %s", e.RatString())
	}
	if e := bound("exclusiveMaximum"); e != nil && x.Cmp(e) >= 0 {
		return m.reject(p, "exclusiveMaximum %s", e.RatString())
	}
	if mo := rat(s["multipleOf"]); mo != nil && mo.Sign() != 0 {
		q := new(big.Rat).Quo(x, mo)
		trueOK := q.IsInt()
		ok := trueOK
		if isInt && !mo.IsInt() && x.IsInt() && m.dev("INT_MULTIPLEOF_TRUNCATED") {
			// as built: the divisor of an integer is converted to an integer type (2.5 becomes 2) before the % check is emitted
			mf, _ := mo.Float64()
			if t := int64(mf); t != 0 {
				ok = new(big.Int).Rem(x.Num(), big.NewInt(t)).Sign() == 0
				if ok != trueOK {
					m.fire("INT_MULTIPLEOF_TRUNCATED")
				}
			}
		}
		if !isInt && m.dev("FLOAT_MULTIPLEOF_TOLERANCE") {
			xf, _ := x.Float64()
			mf, _ := mo.Float64()
			ok = !(math.Abs(math.Mod(xf, mf)) > 1e-10)
			if ok != trueOK {
				m.fire("FLOAT_MULTIPLEOF_TOLERANCE")
			}
		}
		if !ok {
			return m.reject(p, "multipleOf %s", mo.RatString())
		}
	}
	return Accept
}

// sizedStrip: which inclusive bounds --min-sized-ints removes from the schema because the chosen Go type implies them
// (getMinIntType: unsigned when min >= 0 - then a minimum of exactly 0 is removed -, otherwise the narrowest signed type;
// a bound equal to the type's own limit is removed).
func sizedStrip(mn, mx *big.Rat) (dropMin, dropMax bool) {
	eq := func(r *big.Rat, s string) bool {
		n, _ := new(big.Int).SetString(s, 10)
		return r != nil && r.IsInt() && r.Num().Cmp(n) == 0
	}
	le := func(r *big.Rat, s string) bool {
		n, _ := new(big.Int).SetString(s, 10)
		return r.Cmp(new(big.Rat).SetInt(n)) <= 0
	}
	ge := func(r *big.Rat, s string) bool {
		n, _ := new(big.Int).SetString(s, 10)
		return r.Cmp(new(big.Rat).SetInt(n)) >= 0
	}
	if mn != nil && mn.Sign() >= 0 {
		dropMin = mn.Sign() == 0
		if mx == nil {
			return dropMin, false
		}
		for _, lim := range []string{"255", "65535", "4294967295"} {
			if le(mx, lim) {
				return dropMin, eq(mx, lim)
			}
		}
		return dropMin, eq(mx, "18446744073709551615")
	}
	switch {
	case mn == nil && mx == nil:
		return false, false
	case mn == nil:
		return false, eq(mx, "9223372036854775807")
	case mx == nil:
		return eq(mn, "-9223372036854775808"), false
	}
	for _, t := range [][2]string{{"-128", "127"}, {"-32768", "32767"}, {"-2147483648", "2147483647"}} {
		if ge(mn, t[0]) && le(mx, t[1]) {
			return eq(mn, t[0]), eq(mx, t[1])
		}
	}
	return eq(mn, "-9223372036854775808"), eq(mx, "9223372036854775807")
}

func intKey(s S, key string) (int, bool) {
	r := rat(s[key])
	if r == nil || !r.IsInt() {
		return 0, false
	}
	return int(r.Num().Int64()), true
}

func (m *Model) str(s S, v string, p Pos) Verdict {
	if f, isFmt := s["format"].(string); isFmt {
		// format values are drawn from valid examples only; length limits and pattern stated next to the format still apply to the text
		if !formatTypes[f] || !constrained("string", s) {
			return Accept
		}
		ok := m.lenOK(s, utf8.RuneCountInString(v))
		if pat, has := s["pattern"].(string); ok && has {
			if re, err := regexp.Compile(pat); err == nil {
				ok = re.MatchString(v)
			}
		}
		if !ok {
			if m.dev("FORMAT_STRING_CONSTRAINTS_IGNORED") {
				// as built: the field is a time.Time / netip.Addr / types.Serializable* value; no string validator is attached to it
				m.fire("FORMAT_STRING_CONSTRAINTS_IGNORED")
				return Accept
			}
			return m.reject(p, "length / pattern of a %s string", f)
		}
		return Accept
	}
	if m.unenforced(p, "string", s) {
		return Accept
	}
	n := utf8.RuneCountInString(v)
	if m.dev("LEN_BYTES") && len(v) != n {
		// as built: the limits are applied to the byte length
		before := m.lenOK(s, n)
		after := m.lenOK(s, len(v))
		if before != after {
			m.fire("LEN_BYTES")
		}
		n = len(v)
	}
	if !m.lenOK(s, n) {
		return m.reject(p, "length %d", n)
	}
	if pat, ok := s["pattern"].(string); ok {
		re, err := regexp.Compile(pat)
		if err != nil {
			return Unspec
		}
		matched := re.MatchString(v)
		if strings.Contains(pat, "\r") && m.dev("PATTERN_CR_DROPPED") {
			// as built: the pattern is emitted inside a raw string literal, from which Go discards carriage returns
			if re2, err := regexp.Compile(strings.ReplaceAll(pat, "\r", "")); err == nil {
				if m2 := re2.MatchString(v); m2 != matched {
					m.fire("PATTERN_CR_DROPPED")
					matched = m2
				}
			}
		}
		if !matched {
			return m.reject(p, "pattern %s", pat)
		}
	}
	return Accept
}

func (m *Model) lenOK(s S, n int) bool {
	if mn, ok := intKey(s, "minLength"); ok && n < mn {
		return false
	}
	if mx, ok := intKey(s, "maxLength"); ok && n > mx {
		if mx == 0 && m.dev("ZERO_LIMIT_IGNORED") {
			m.fire("ZERO_LIMIT_IGNORED")
			return true
		}
		return false
	}
	return true
}

func (m *Model) array(s S, v []any, p Pos) Verdict {
	lim := s
	enforced := true
	if m.dev("NESTED_ARRAY_OUTER_LIMITS") && p.ArrDepth > 0 && p.Outer != nil {
		// as built: every level of an inline array nest is checked against the outermost array's limits
		lim = p.Outer
	}
	if m.unenforced(p, "array", s) {
		enforced = false
	}
	if enforced {
		trueOK := m.itemsOK(s, len(v), false)
		ok := m.itemsOK(lim, len(v), true)
		if ok != trueOK && p.ArrDepth > 0 && p.Outer != nil {
			m.fire("NESTED_ARRAY_OUTER_LIMITS")
		}
		if !ok {
			return m.reject(p, "items count %d", len(v))
		}
	}
	items, ok := s["items"]
	if !ok {
		return Accept
	}
	res := Accept
	ip := p
	ip.Kind = "item"
	ip.Optional = false
	ip.Named = false
	ip.ArrDepth = p.ArrDepth + 1
	ip.InNamedArr = p.Named || p.InNamedArr
	ip.InMapArr = !p.Named && (p.Kind == "mapval" || p.InMapArr)
	ip.InMap = false
	ip.ParentNoMethods = false
	if p.ArrDepth == 0 || p.Outer == nil {
		ip.Outer = s
	}
	for i, e := range v {
		ip.Path = fmt.Sprintf("%s[%d]", p.Path, i)
		x := m.valid(items, e, ip)
		if x == Reject {
			return Reject
		}
		if x == Unspec {
			res = Unspec
		}
	}
	return res
}

func (m *Model) itemsOK(s S, n int, asBuilt bool) bool {
	if mn, ok := intKey(s, "minItems"); ok && n < mn {
		return false
	}
	if mx, ok := intKey(s, "maxItems"); ok && n > mx {
		if mx == 0 && asBuilt && m.dev("ZERO_LIMIT_IGNORED") {
			m.fire("ZERO_LIMIT_IGNORED")
			return true
		}
		return false
	}
	return true
}

func (m *Model) object(s S, v map[string]any, p Pos) Verdict {
	props, _ := s["properties"].(map[string]any)
	res := Accept
	join := func(x Verdict) {
		if x == Reject || (x == Unspec && res == Accept) {
			res = x
		}
	}
	reqd := map[string]bool{}
	if rq, ok := s["required"].([]any); ok {
		for _, r := range rq {
			name, _ := r.(string)
			reqd[name] = true
			if _, present := v[name]; present {
				continue
			}
			ps, declared := props[name]
			if declared {
				if pm, ok := ps.(map[string]any); ok {
					if _, hasDef := pm["default"]; hasDef {
						continue
					}
				}
			}
			if us, ok := p.UnionDeclared[name]; !declared && p.Kind == "branch" && ok {
				declared = true // declared by a sibling branch: the merged struct has the field and its presence check
				if um, ok := us.(map[string]any); ok {
					if _, hasDef := um["default"]; hasDef {
						continue // "... and not given a default"
					}
				}
			}
			if !declared && m.dev("REQUIRED_UNDECLARED_IGNORED") {
				m.fire("REQUIRED_UNDECLARED_IGNORED")
				continue
			}
			if m.unenforced(p, "required", s) {
				continue
			}
			return m.reject(p, "required %q missing", name)
		}
	}
	ap, hasAP := s["additionalProperties"]
	for _, k := range jsonv.Keys(v) {
		val := v[k]
		if ps, ok := props[k]; ok {
			pp := p
			pp.Kind = "prop"
			pp.UnionDeclared = nil
			pp.ParentNoMethods = noMethodsStruct(p)
			pp.Named = false
			pp.InMap = false
			pp.InNamedArr = false
			pp.ArrDepth = 0
			pp.Outer = nil
			pp.Path = p.Path + "/" + k
			pp.Optional = !reqd[k]
			if pm, ok := ps.(map[string]any); ok {
				if _, hasDef := pm["default"]; hasDef {
					pp.Optional = true
				}
			}
			join(m.valid(ps, val, pp))
			if res == Reject {
				return res
			}
			continue
		}
		if !hasAP {
			continue
		}
		if b, isBool := ap.(bool); isBool {
			if !b {
				join(Unspec) // additionalProperties:false rejection is claimed by no property
			}
			continue
		}
		pp := p
		pp.Kind = "mapval"
		if len(props) > 0 {
			pp.Kind = "addl"
		}
		pp.InMap = true
		pp.InNamedArr = false
		pp.ParentNoMethods = false
		pp.Named = false
		pp.Optional = false
		pp.ArrDepth = 0
		pp.Outer = nil
		pp.Path = p.Path + "/" + k
		join(m.valid(ap, val, pp))
		if res == Reject {
			return res
		}
	}
	return res
}

// noMethodsStruct: an object schema at this position is emitted as an inline struct without unmarshal method
// (item of a named array, value of a pure map).
func noMethodsStruct(p Pos) bool {
	if p.Named {
		return false
	}
	return (p.Kind == "item" && (p.InNamedArr || p.InMapArr)) || p.Kind == "mapval"
}

// unenforced consults the attachment-matrix deviations: constraint family fam
// of schema s is not enforced at position p in the current implementation.
func (m *Model) unenforced(p Pos, fam string, s S) bool {
	name := ""
	F := strings.ToUpper(fam)
	switch {
	case p.Named && fam == "array":
		name = "UNENFORCED_NAMED_ARRAY"
	case p.Named && (fam == "string" || fam == "numeric") && has(typeList(s), "null"):
		// a definition (or root) of type [T, "null"] is a named pointer type: no unmarshaler, nothing is checked
		name = "NULLABLE_DEF_UNENFORCED"
	case p.Named:
	case fam == "required":
		switch {
		case p.Kind == "mapval" || (p.Kind == "item" && p.InMapArr):
			name = "UNENFORCED_MAPVAL_REQUIRED" // objects anywhere below a pure map's value are inline structs without methods
		case p.Kind == "item" && p.InNamedArr:
			name = "UNENFORCED_NAMED_ARRAY_ITEM_REQUIRED"
		}
	case p.Kind == "item" && p.InNamedArr:
		name = "UNENFORCED_NAMED_ARRAY"
	case p.Kind == "item" && fam != "array":
		name = "UNENFORCED_ITEM_" + F
	case p.Kind == "mapval" || p.Kind == "addl":
		name = "UNENFORCED_" + strings.ToUpper(p.Kind) + "_" + F
	case p.Kind == "prop" && p.ParentNoMethods:
		name = "UNENFORCED_INLINE_STRUCT_PROPS"
	}
	if name == "" || !m.dev(name) {
		return false
	}
	if !constrained(fam, s) {
		return false
	}
	m.fire(name)
	return true
}

func constrained(fam string, s S) bool {
	keys := map[string][]string{
		"string":   {"minLength", "maxLength", "pattern"},
		"numeric":  {"minimum", "maximum", "exclusiveMinimum", "exclusiveMaximum", "multipleOf"},
		"array":    {"minItems", "maxItems"},
		"required": {"required"},
	}[fam]
	for _, k := range keys {
		if _, ok := s[k]; ok {
			return true
		}
	}
	return false
}

var formatTypes = map[string]bool{"date": true, "time": true, "date-time": true, "ipv4": true, "ipv6": true}

func isFormatString(s S, tl []string) bool {
	f, _ := s["format"].(string)
	nn := nonNullTypes(tl)
	return formatTypes[f] && len(nn) == 1 && nn[0] == "string"
}

// asBuiltEarly holds the deviations that replace the whole evaluation of a node.
func (m *Model) asBuiltEarly(s S, tl []string, hasEnum bool, v any, p Pos) (Verdict, bool) {
	nn := nonNullTypes(tl)
	// a definition (or root) that is an untyped allOf/anyOf with a $ref branch becomes interface{}
	if m.dev("COMPOSITE_DEF_REF_IS_ANY") && p.Named && compositeWithRef(s, tl) {
		m.fire("COMPOSITE_DEF_REF_IS_ANY")
		return Accept, true
	}
	// a typed integer enum generated with --min-sized-ints compares a sized value with an int table: nothing matches
	if m.dev("SIZED_INT_ENUM_REJECTS_ALL") && m.MinSized && hasEnum && len(nn) == 1 && nn[0] == "integer" && v != nil {
		m.fire("SIZED_INT_ENUM_REJECTS_ALL")
		return m.reject(p, "as built: sized integer enum rejects every value"), true
	}
	// a format-typed string used as a definition (or root) is a defined type without decoding methods
	if m.dev("FORMAT_DEF_NO_METHODS") && p.Named && !hasEnum && isFormatString(s, tl) && v != nil {
		m.fire("FORMAT_DEF_NO_METHODS")
		if jsonv.Kind(v) == "object" {
			return Accept, true
		}
		return m.reject(p, "as built: format-typed definition has no unmarshaler"), true
	}
	// type null is only enforced for struct fields and inline array items
	if m.dev("NULLTYPE_UNENFORCED") && len(tl) == 1 && tl[0] == "null" && !hasEnum && v != nil &&
		(p.Named || p.Kind == "mapval" || p.Kind == "addl" || p.InNamedArr || p.ParentNoMethods) {
		m.fire("NULLTYPE_UNENFORCED")
		return Accept, true
	}
	if p.Kind == "addl" && !hasEnum && len(nn) == 1 && v != nil {
		// typed additional properties are decoded by mapstructure from the raw map
		if m.dev("ADDL_INT_TRUNCATES") && nn[0] == "integer" && jsonv.Kind(v) == "number" {
			if r := rat(v); r != nil && !r.IsInt() {
				m.fire("ADDL_INT_TRUNCATES")
				return Accept, true
			}
		}
		if m.dev("ADDL_NONPRIMITIVE_UNTYPED") {
			if nn[0] == "object" {
				m.fire("ADDL_NONPRIMITIVE_UNTYPED")
				return Accept, true
			}
			if nn[0] == "array" && jsonv.Kind(v) == "array" {
				m.fire("ADDL_NONPRIMITIVE_UNTYPED")
				return Accept, true
			}
		}
	}
	// null for a defaulted enum-typed property reaches the enum's UnmarshalJSON, which looks null up in the value table
	if m.dev("DEFAULT_ENUM_NULL_REJECTED") && v == nil && hasEnum && p.Kind == "prop" {
		if _, hasDefault := s["default"]; hasDefault {
			isMember := false
			for _, e := range s["enum"].([]any) {
				if e == nil {
					isMember = true
				}
			}
			if !isMember {
				m.fire("DEFAULT_ENUM_NULL_REJECTED")
				return m.reject(p, "as built: null for a defaulted enum property is rejected"), true
			}
		}
	}
	// null handed to the unmarshaler of a nullable object in a non-pointer position: the struct stays at its zero value and
	// the validators of its required (non-pointer) members then judge 0 and ""
	_, objHasDefault := s["default"]
	if m.dev("NULL_OBJECT_VALIDATES_ZERO") && v == nil && !noMethodsStruct(p) &&
		((has(tl, "null") && !(p.Kind == "prop" && p.Optional)) || (p.Kind == "prop" && objHasDefault && len(nn) == 1 && nn[0] == "object")) {
		// (a property with a default is a non-pointer field as well: null reaches the struct's unmarshaler before the default is applied)
		if props, ok := s["properties"].(map[string]any); ok {
			reqd := requiredSet(s)
			for _, k := range jsonv.Keys(props) {
				pm, _ := props[k].(map[string]any)
				if pm == nil || !reqd[k] {
					continue
				}
				if _, hasDef := pm["default"]; hasDef {
					continue
				}
				if _, isEnum := pm["enum"]; isEnum {
					continue
				}
				pt := typeList(pm)
				if len(pt) != 1 {
					continue
				}
				zp := p
				zp.Kind = "prop"
				zp.Path = p.Path + "/" + k
				var r Verdict = Accept
				switch pt[0] {
				case "string":
					if _, isFmt := pm["format"]; !isFmt {
						r = m.str(pm, "", zp)
					}
				case "integer", "number":
					r = m.numeric(pm, json.Number("0"), zp, pt[0] == "integer")
				}
				if r == Reject {
					m.fire("NULL_OBJECT_VALIDATES_ZERO")
					return Reject, true
				}
			}
		}
	}
	// null handed to the unmarshaler of a struct with typed additional properties makes mapstructure fail
	if m.dev("NULL_TO_ADDL_STRUCT_ERRORS") && v == nil && has(tl, "null") && !(p.Kind == "prop" && p.Optional) {
		if _, ok := s["properties"].(map[string]any); ok {
			if ap, ok := s["additionalProperties"].(map[string]any); ok {
				at := typeList(ap)
				if len(at) == 1 && (at[0] == "string" || at[0] == "number" || at[0] == "integer" || at[0] == "boolean" || at[0] == "array") {
					m.fire("NULL_TO_ADDL_STRUCT_ERRORS")
					return m.reject(p, "as built: null reaches mapstructure.Decode"), true
				}
			}
		}
	}
	return Accept, false
}

func compositeWithRef(s S, tl []string) bool {
	if len(tl) != 0 {
		return false
	}
	for _, key := range []string{"allOf", "anyOf"} {
		if bs, ok := s[key].([]any); ok {
			for _, b := range bs {
				if bm, ok := b.(map[string]any); ok {
					if _, isRef := bm["$ref"]; isRef {
						return true
					}
				}
			}
		}
	}
	return false
}

// sizedUint8: with --min-sized-ints an integer schema whose admitted range lies in [0, 255] becomes uint8.
func (m *Model) sizedUint8(sn any, file string) bool {
	s, ok := sn.(map[string]any)
	if !ok {
		return false
	}
	if ref, ok := s["$ref"].(string); ok {
		t, f, err := m.Resolve(ref, file)
		if err != nil {
			return false
		}
		return m.sizedUint8(t, f)
	}
	tl := typeList(s)
	if len(tl) != 1 || tl[0] != "integer" {
		return false
	}
	if _, isEnum := s["enum"]; isEnum {
		return false
	}
	var lo, hi *big.Rat
	one := big.NewRat(1, 1)
	if r := rat(s["minimum"]); r != nil {
		lo = r
		if b, _ := s["exclusiveMinimum"].(bool); b {
			lo = new(big.Rat).Add(r, one)
		}
	}
	if r := rat(s["exclusiveMinimum"]); r != nil {
		if _, isBool := s["exclusiveMinimum"].(bool); !isBool {
			e := new(big.Rat).Add(r, one)
			if lo == nil || e.Cmp(lo) > 0 {
				lo = e
			}
		}
	}
	if r := rat(s["maximum"]); r != nil {
		hi = r
		if b, _ := s["exclusiveMaximum"].(bool); b {
			hi = new(big.Rat).Sub(r, one)
		}
	}
	if r := rat(s["exclusiveMaximum"]); r != nil {
		if _, isBool := s["exclusiveMaximum"].(bool); !isBool {
			e := new(big.Rat).Sub(r, one)
			if hi == nil || e.Cmp(hi) < 0 {
				hi = e
			}
		}
	}
	return lo != nil && hi != nil && lo.Sign() >= 0 && hi.Cmp(big.NewRat(255, 1)) <= 0
}

// firstWins emulates the merge of allOf branches in the current implementation: when two branches give the same property
// the same keyword, the value of the earlier branch is kept and the later one is dropped (keywords whose earlier value is
// the zero value are overwritten).
func (m *Model) firstWins(branches []any, file string) []any {
	resolved := make([]map[string]any, len(branches))
	for i, b := range branches {
		bm, _ := b.(map[string]any)
		if ref, ok := bm["$ref"].(string); ok {
			if t, _, err := m.Resolve(ref, file); err == nil {
				bm, _ = t.(map[string]any)
			}
		}
		resolved[i] = bm
	}
	out := make([]any, len(branches))
	seen := map[string]map[string]bool{} // property -> keywords already given by an earlier branch
	for i, bm := range resolved {
		props, _ := bm["properties"].(map[string]any)
		if props == nil {
			out[i] = branches[i]
			continue
		}
		cp := map[string]any{}
		for k, v := range bm {
			cp[k] = v
		}
		np := map[string]any{}
		changed := false
		for name, ps := range props {
			pm, ok := ps.(map[string]any)
			if !ok {
				np[name] = ps
				continue
			}
			if seen[name] == nil {
				seen[name] = map[string]bool{}
			}
			q := map[string]any{}
			for kw, val := range pm {
				if seen[name][kw] && kw != "type" && kw != "required" && kw != "properties" {
					// (the merge appends lists and merges maps: a nested required list or property set given by a later branch is kept)
					changed = true
					continue
				}
				q[kw] = val
			}
			for kw, val := range pm {
				if r, ok := jsonv.Rat(val); ok && r.Sign() == 0 {
					continue // a zero value counts as "not set" for the merge
				}
				seen[name][kw] = true
			}
			np[name] = q
		}
		cp["properties"] = np
		delete(cp, "$ref")
		if changed {
			m.fire("ALLOF_FIRST_WINS")
		}
		out[i] = cp
	}
	return out
}

// foldedInto: the definition an as-built generator uses instead of the one ref names (see SAME_NAME_ANYOF_DIFFERENCE_IGNORED).
func (m *Model) foldedInto(ref, file string) any {
	i := strings.LastIndexByte(ref, '/')
	if i < 0 {
		return nil
	}
	container, name := ref[2:i], ref[i+1:]
	root := m.Files[file]
	defs, _ := root[container].(map[string]any)
	mine, ok := defs[name]
	if !ok {
		return nil
	}
	norm := func(s string) string {
		var b strings.Builder
		for _, r := range strings.ToLower(s) {
			if (r >= 'a' && r <= 'z') || (r >= '0' && r <= '9') {
				b.WriteRune(r)
			}
		}
		return b.String()
	}
	var strip func(v any) any
	strip = func(v any) any {
		switch x := v.(type) {
		case map[string]any:
			o := map[string]any{}
			for k, e := range x {
				if k != "anyOf" {
					o[k] = strip(e)
				}
			}
			return o
		case []any:
			o := make([]any, len(x))
			for i, e := range x {
				o[i] = strip(e)
			}
			return o
		}
		return v
	}
	var names []string
	for n := range defs {
		names = append(names, n)
	}
	sort.Strings(names)
	for _, n := range names {
		if n >= name {
			break
		}
		if norm(n) != norm(name) {
			continue
		}
		if jsonv.Text(strip(defs[n])) == jsonv.Text(strip(mine)) && jsonv.Text(defs[n]) != jsonv.Text(mine) {
			return defs[n]
		}
	}
	return nil
}

func (m *Model) allNullFirstObjects(list []any, file string) bool {
	typed := 0
	for _, b := range list {
		bm, _ := b.(map[string]any)
		if ref, ok := bm["$ref"].(string); ok {
			if t, _, err := m.Resolve(ref, file); err == nil {
				bm, _ = t.(map[string]any)
			}
		}
		tl := typeList(bm)
		if len(tl) == 0 {
			continue
		}
		typed++
		if !(len(tl) == 2 && tl[0] == "null" && tl[1] == "object") {
			return false
		}
	}
	return typed > 0
}

// mergeLeaks collects, for the as-built deviation ALLOF_MERGE_MUTATES_SHARED_DEFINITION, what the merge of every allOf / anyOf
// list of the schema files writes into shared definitions: when the first branch of a list that declares property p is a
// same-file $ref to definition D, the merged property *is* D's property schema (a shared pointer) and the keywords later
// branches give for p are merged into it - and stay there for every list that uses D afterwards.
// Result: definition key (file|ref) -> property -> keyword -> value, plus the list (address of its first element) it came from.
type leak struct {
	kw  map[string]any
	src *any
}

func (m *Model) mergeLeaks() map[string]map[string][]leak {
	if m.leaks != nil {
		return m.leaks
	}
	m.leaks = map[string]map[string][]leak{}
	var walk func(v any, file string)
	walk = func(v any, file string) {
		switch x := v.(type) {
		case []any:
			for _, e := range x {
				walk(e, file)
			}
		case map[string]any:
			for _, ck := range []string{"allOf", "anyOf"} {
				list, _ := x[ck].([]any)
				if len(list) < 2 {
					continue
				}
				first := map[string]string{} // property -> definition key of its first declarer ("" = an inline branch)
				for _, b := range list {
					bm, _ := b.(map[string]any)
					key := ""
					if ref, ok := bm["$ref"].(string); ok && strings.HasPrefix(ref, "#/") {
						if t, _, err := m.Resolve(ref, file); err == nil {
							bm, _ = t.(map[string]any)
							key = file + "|" + ref
						}
					}
					props, _ := bm["properties"].(map[string]any)
					for name, ps := range props {
						pm, _ := ps.(map[string]any)
						fk, seen := first[name]
						if !seen {
							first[name] = key
							continue
						}
						if fk == "" || pm == nil {
							continue
						}
						// a later branch gives keywords for a property first declared by definition fk
						t, _, _ := m.Resolve(fk[strings.IndexByte(fk, '|')+1:], file)
						dm, _ := t.(map[string]any)
						dprops, _ := dm["properties"].(map[string]any)
						dp, _ := dprops[name].(map[string]any)
						add := map[string]any{}
						for kw, val := range pm {
							if _, has := dp[kw]; !has && kw != "type" && kw != "description" && kw != "title" {
								add[kw] = val
							}
						}
						if len(add) > 0 {
							if m.leaks[fk] == nil {
								m.leaks[fk] = map[string][]leak{}
							}
							m.leaks[fk][name] = append(m.leaks[fk][name], leak{add, &list[0]})
						}
					}
				}
			}
			for _, val := range x {
				walk(val, file)
			}
		}
	}
	for f, root := range m.Files {
		walk(root, f)
	}
	return m.leaks
}

// leakInto returns the allOf list with every same-file $ref branch whose definition received keywords from *another* list
// replaced by an inline copy of the definition carrying those keywords.
func (m *Model) leakInto(all []any, file string) []any {
	leaks := m.mergeLeaks()
	out := all
	for i, b := range all {
		bm, _ := b.(map[string]any)
		ref, ok := bm["$ref"].(string)
		if !ok || !strings.HasPrefix(ref, "#/") {
			continue
		}
		byProp := leaks[file+"|"+ref]
		if byProp == nil {
			continue
		}
		t, _, err := m.Resolve(ref, file)
		dm, _ := t.(map[string]any)
		if err != nil || dm == nil {
			continue
		}
		props, _ := dm["properties"].(map[string]any)
		np := map[string]any{}
		changed := false
		for name, ps := range props {
			pm, _ := ps.(map[string]any)
			q := map[string]any{}
			for k, v := range pm {
				q[k] = v
			}
			for _, l := range byProp[name] {
				if l.src == &all[0] {
					continue
				}
				for kw, val := range l.kw {
					if _, has := q[kw]; !has {
						q[kw] = val
						changed = true
					}
				}
			}
			np[name] = q
		}
		if !changed {
			continue
		}
		m.fire("ALLOF_MERGE_MUTATES_SHARED_DEFINITION")
		cp := map[string]any{}
		for k, v := range dm {
			cp[k] = v
		}
		cp["properties"] = np
		if len(out) > 0 && &out[0] == &all[0] {
			out = append([]any(nil), all...)
		}
		out[i] = cp
	}
	return out
}

// cyclicBranch: some branch is a $ref to a definition that encloses the current node.
func (m *Model) cyclicBranch(branches []any, p Pos) bool {
	for _, b := range branches {
		bm, _ := b.(map[string]any)
		ref, ok := bm["$ref"].(string)
		if !ok {
			continue
		}
		f := p.File
		if i := strings.IndexByte(ref, '#'); i > 0 {
			continue // cross-file cycles are not modelled
		}
		key := f + "|" + ref
		for _, d := range p.DefStack {
			if d == key {
				return true
			}
		}
	}
	return false
}

// cyclicCount: how often the definition a $ref branch names already encloses this node (0 = no cycle).
func (m *Model) cyclicCount(branches []any, p Pos) int {
	best := 0
	for _, b := range branches {
		bm, _ := b.(map[string]any)
		ref, ok := bm["$ref"].(string)
		if !ok {
			continue
		}
		if i := strings.IndexByte(ref, '#'); i > 0 {
			continue // cross-file cycles are not modelled
		}
		key := p.File + "|" + ref
		n := 0
		for _, d := range p.DefStack {
			if d == key {
				n++
			}
		}
		if n > best {
			best = n
		}
	}
	return best
}

// enumListsZero: the members are all of one primitive kind (the enum is carried by string / a number type / bool, not by the
// interface{} wrapper) and the zero value of that kind ("", 0, false) is among them.
func enumListsZero(enum []any) bool {
	kind := ""
	zero := false
	for _, e := range enum {
		k := jsonv.Kind(e)
		if k == "null" || k == "array" || k == "object" {
			return false
		}
		if kind != "" && k != kind {
			return false
		}
		kind = k
		switch k {
		case "string":
			zero = zero || e.(string) == ""
		case "boolean":
			zero = zero || e.(bool) == false
		case "number":
			if r := rat(e); r != nil && r.Sign() == 0 {
				zero = true
			}
		}
	}
	return zero
}

package refmodel

import (
	"verif/internal/jsonv"
)

// AdditionalKey is the key under which the additional-properties map appears in value trees.
const AdditionalKey = "\x00additional"

// Absent marks "no value" in Expect results.
type absent struct{}

// Expect returns the decoded value tree the properties promise for a valid document.
func (m *Model) Expect(doc any) any {
	v := m.expect(m.RootSchema(), doc, m.RootPos())
	if _, ok := v.(absent); ok {
		return nil
	}
	return v
}

func (m *Model) expect(sn any, v any, p Pos) any {
	s, ok := sn.(map[string]any)
	if !ok {
		return v
	}
	if ref, ok := s["$ref"].(string); ok {
		t, file, err := m.Resolve(ref, p.File)
		if err != nil {
			return v
		}
		np := p
		np.File = file
		np.Named = true
		return m.expect(t, v, np)
	}
	if v == nil {
		return nil
	}
	if _, ok := s["enum"]; ok {
		return v
	}
	switch x := v.(type) {
	case []any:
		items, ok := s["items"]
		out := make([]any, len(x))
		for i, e := range x {
			if ok {
				ip := p
				ip.Kind = "item"
				out[i] = m.expect(items, e, ip)
			} else {
				out[i] = e
			}
		}
		return out
	case map[string]any:
		return m.expectObject(s, x, p)
	}
	return v
}

// declaredProps collects the property schemas an object value is decoded with:
// the schema's own properties and those of its allOf / anyOf branches (the
// generated type exposes the union).
func (m *Model) declaredProps(s S, file string, out map[string]propAt, depth int) {
	if depth > 6 {
		return
	}
	if ref, ok := s["$ref"].(string); ok {
		t, f, err := m.Resolve(ref, file)
		if err == nil {
			if ts, ok := t.(map[string]any); ok {
				m.declaredProps(ts, f, out, depth+1)
			}
		}
		return
	}
	if props, ok := s["properties"].(map[string]any); ok {
		for k, ps := range props {
			if _, dup := out[k]; !dup {
				out[k] = propAt{ps, file}
			}
		}
	}
	for _, key := range []string{"allOf", "anyOf"} {
		if bs, ok := s[key].([]any); ok {
			for _, b := range bs {
				if bm, ok := b.(map[string]any); ok {
					m.declaredProps(bm, file, out, depth+1)
				}
			}
		}
	}
}

type propAt struct {
	s    any
	file string
}

func (m *Model) expectObject(s S, v map[string]any, p Pos) any {
	props := map[string]propAt{}
	m.declaredProps(s, p.File, props, 0)
	ap, hasAP := s["additionalProperties"]
	if len(props) == 0 {
		// a pure map
		out := map[string]any{}
		for k, val := range v {
			if hasAP {
				pp := p
				pp.Kind = "mapval"
				out[k] = m.expect(ap, val, pp)
			} else {
				out[k] = val
			}
		}
		return out
	}
	out := map[string]any{}
	for k, pa := range props {
		val, present := v[k]
		pm, _ := pa.s.(map[string]any)
		if present && val != nil {
			pp := p
			pp.Kind = "prop"
			pp.File = pa.file
			out[k] = m.expect(pa.s, val, pp)
			continue
		}
		if pm != nil {
			if d, ok := pm["default"]; ok {
				out[k] = jsonv.Clone(d)
				continue
			}
		}
		// absent, or null for a nullable property: no value
	}
	if hasAP {
		if b, isBool := ap.(bool); !isBool || b {
			add := map[string]any{}
			for k, val := range v {
				if _, declared := props[k]; declared {
					continue
				}
				if isBool {
					add[k] = val
				} else {
					pp := p
					pp.Kind = "addl"
					add[k] = m.expect(ap, val, pp)
				}
			}
			if len(add) > 0 {
				out[AdditionalKey] = add
			}
		}
	}
	return out
}

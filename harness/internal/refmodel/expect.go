package refmodel

import (
	"encoding/json"
	"strconv"
	"strings"

	"verif/internal/jsonv"
)

// AdditionalKey is the key under which the additional-properties map appears in value trees.
const AdditionalKey = "\x00additional"

// Absent marks "no value" in Expect results.
type absent struct{}

// Expect returns the decoded value tree the properties promise for a valid document.
func (m *Model) Expect(doc any) any {
	v := m.expect(m.RootSchema(), doc, m.RootPos())
	if _, ok := v.(absent); ok {
		return nil
	}
	return v
}

func (m *Model) expect(sn any, v any, p Pos) any {
	s, ok := sn.(map[string]any)
	if !ok {
		return v
	}
	if ref, ok := s["$ref"].(string); ok {
		t, file, err := m.Resolve(ref, p.File)
		if err != nil {
			return v
		}
		np := p
		np.File = file
		np.Named = true
		np.DefStack = append(append([]string{}, p.DefStack...), file+"|"+ref[strings.IndexByte(ref+"#", '#'):])
		if ts, ok := t.(map[string]any); ok && m.dev("REF_UNTYPED_DEF_IS_ANY") && strings.Contains(ref, "#/") && len(ts) > 0 {
			_, hasType := ts["type"]
			_, hasProps := ts["properties"]
			if !hasType && !hasProps {
				m.fire("REF_UNTYPED_DEF_IS_ANY")
				return rawValue(v)
			}
		}
		return m.expect(t, v, np)
	}
	if v == nil {
		return nil
	}
	if anyOf, ok := s["anyOf"].([]any); ok && m.dev("RECURSIVE_ANYOF_IS_ANY") && m.cyclicBranch(anyOf, p) {
		m.fire("RECURSIVE_ANYOF_IS_ANY")
		return rawValue(v)
	}
	if m.dev("COMPOSITE_DEF_REF_IS_ANY") && p.Named && compositeWithRef(s, typeList(s)) {
		m.fire("COMPOSITE_DEF_REF_IS_ANY")
		return rawValue(v)
	}
	if _, ok := s["enum"]; ok {
		return v
	}
	switch x := v.(type) {
	case []any:
		items, ok := s["items"]
		out := make([]any, len(x))
		for i, e := range x {
			if ok {
				ip := p
				ip.Kind = "item"
				ip.InNamedArr = p.Named || p.InNamedArr
				ip.InMapArr = !p.Named && (p.Kind == "mapval" || p.InMapArr)
				ip.Named = false
				out[i] = m.expect(items, e, ip)
			} else {
				out[i] = e
			}
		}
		return out
	case map[string]any:
		return m.expectObject(s, x, p)
	case string:
		if f, _ := s["format"].(string); f == "time" && m.dev("TIME_FRACTION_DROPPED") {
			// as built: SerializableTime prints with layout 15:04:05, dropping fractional seconds
			if i := strings.IndexByte(x, '.'); i >= 0 {
				m.fire("TIME_FRACTION_DROPPED")
				return x[:i]
			}
		}
	}
	return v
}

// declaredProps collects the property schemas an object value is decoded with:
// the schema's own properties and those of its allOf / anyOf branches (the
// generated type exposes the union).
func (m *Model) declaredProps(s S, file string, out map[string]propAt, depth int) {
	if depth > 6 {
		return
	}
	if ref, ok := s["$ref"].(string); ok {
		t, f, err := m.Resolve(ref, file)
		if err == nil {
			if ts, ok := t.(map[string]any); ok {
				m.declaredProps(ts, f, out, depth+1)
			}
		}
		return
	}
	if props, ok := s["properties"].(map[string]any); ok {
		for k, ps := range props {
			prev, dup := out[k]
			if !dup {
				out[k] = propAt{ps, file}
				continue
			}
			// declared again by a later branch: the keywords of all branches apply; a default given only by the later one is the property's default
			pm, ok1 := prev.s.(map[string]any)
			nm, ok2 := ps.(map[string]any)
			if ok1 && ok2 {
				if _, has := pm["default"]; !has {
					if d, has := nm["default"]; has {
						cp := map[string]any{}
						for kk, vv := range pm {
							cp[kk] = vv
						}
						cp["default"] = d
						out[k] = propAt{cp, prev.file}
					}
				}
			}
		}
	}
	for _, key := range []string{"allOf", "anyOf"} {
		if bs, ok := s[key].([]any); ok {
			for _, b := range bs {
				if bm, ok := b.(map[string]any); ok {
					m.declaredProps(bm, file, out, depth+1)
				}
			}
		}
	}
}

type propAt struct {
	s    any
	file string
}

func (m *Model) expectObject(s S, v map[string]any, p Pos) any {
	props := map[string]propAt{}
	m.declaredProps(s, p.File, props, 0)
	ap, hasAP := s["additionalProperties"]
	if len(props) == 0 {
		// a pure map
		out := map[string]any{}
		for k, val := range v {
			if hasAP {
				pp := p
				pp.Kind = "mapval"
				pp.Named = false
				pp.InNamedArr = false
				out[k] = m.expect(ap, val, pp)
			} else {
				out[k] = val
			}
		}
		return out
	}
	out := map[string]any{}
	for k, pa := range props {
		val, present := v[k]
		pm, _ := pa.s.(map[string]any)
		if present && val != nil {
			pp := p
			pp.Kind = "prop"
			pp.Named = false
			pp.InNamedArr = false
			pp.File = pa.file
			out[k] = m.expect(pa.s, val, pp)
			continue
		}
		if pm != nil {
			if _, own := pm["default"]; !own {
				// a property that is a reference to a schema with a default: the inline copy of the target would apply it
				if ref, isRef := pm["$ref"].(string); isRef {
					if t, _, err := m.Resolve(ref, pa.file); err == nil {
						if tm, ok := t.(map[string]any); ok {
							if d, ok := tm["default"]; ok {
								if m.dev("DEFAULT_BEHIND_REF_IGNORED") {
									m.fire("DEFAULT_BEHIND_REF_IGNORED")
								} else {
									out[k] = jsonv.Clone(d)
								}
								continue
							}
						}
					}
				}
			}
			if d, ok := pm["default"]; ok {
				if m.dev("INLINE_STRUCT_NO_DEFAULTS") && noMethodsStruct(p) {
					// as built: an inline struct without unmarshal method (map value, item of a named array) applies no defaults
					m.fire("INLINE_STRUCT_NO_DEFAULTS")
					continue
				}
				out[k] = jsonv.Clone(d)
				continue
			}
		}
		// absent, or null for a nullable property: no value
	}
	if hasAP && m.dev("UNTYPED_ADDL_DROPPED") {
		// as built: without a single primitive/object type the synthetic field has no default value, hence (absent other
		// validators) no unmarshaler is generated and undeclared keys are silently dropped
		untyped := false
		if b, isBool := ap.(bool); isBool {
			untyped = b
		} else if am, ok := ap.(map[string]any); ok {
			untyped = len(typeList(am)) == 0
		}
		if untyped {
			m.fire("UNTYPED_ADDL_DROPPED")
			hasAP = false
		}
	}
	if hasAP {
		if b, isBool := ap.(bool); !isBool || b {
			add := map[string]any{}
			for k, val := range v {
				if _, declared := props[k]; declared {
					continue
				}
				if isBool {
					add[k] = val
				} else if am, ok := ap.(map[string]any); ok && m.dev("ADDL_NONPRIMITIVE_RAW") && rawAP(am) {
					// as built: additional properties of type object / array are kept as the raw generic value (numbers as float64)
					m.fire("ADDL_NONPRIMITIVE_RAW")
					add[k] = rawValue(val)
				} else {
					pp := p
					pp.Kind = "addl"
					add[k] = m.expect(ap, val, pp)
				}
			}
			if len(add) > 0 {
				out[AdditionalKey] = add
			}
		}
	}
	return out
}

func rawAP(ap S) bool {
	tl := typeList(ap)
	return len(tl) == 1 && (tl[0] == "object" || tl[0] == "array")
}

// rawValue is what encoding/json yields for interface{}: numbers become float64.
func rawValue(v any) any {
	switch x := v.(type) {
	case json.Number:
		f, err := x.Float64()
		if err != nil {
			return v
		}
		return json.Number(strconv.FormatFloat(f, 'g', -1, 64))
	case []any:
		o := make([]any, len(x))
		for i := range x {
			o[i] = rawValue(x[i])
		}
		return o
	case map[string]any:
		o := map[string]any{}
		for k, e := range x {
			o[k] = rawValue(e)
		}
		return o
	}
	return v
}

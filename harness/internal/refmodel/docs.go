package refmodel

import (
	"encoding/json"
	"fmt"
	"math/big"
	"regexp"
	"sort"
	"strings"
	"sync"

	"verif/internal/jsonv"
)

// Doc is one enumerated document.
type Doc struct {
	V     any
	Text  string
	Class string // what differs from the base document ("base" for the base)
}

type cand struct {
	v      any
	class  string
	absent bool
}

// FormatSamples are valid example strings per format.
var FormatSamples = map[string][]string{
	"date":      {"2024-02-29", "1999-12-31", "0001-01-01", "9999-12-31"},
	"time":      {"12:34:56", "00:00:00", "23:59:59.789"},
	"date-time": {"2024-02-29T12:34:56Z", "1999-12-31T23:59:59.123456789+02:00", "0001-01-01T00:00:00Z", "9999-12-31T23:59:59Z"},
	"ipv4":      {"10.0.0.1", "255.255.255.255", "0.0.0.0"},
	"ipv6":      {"::1", "2001:db8::8a2e:370:7334", "::"},
}

var otherTypeValues = []struct {
	kind string
	text string
}{
	{"string", `"x"`}, {"number", `1.5`}, {"integer", `1`}, {"boolean", `true`},
	{"array", `[]`}, {"array", `[1]`}, {"object", `{}`}, {"object", `{"k":1}`},
	// the "empty" value of each type: code that mistakes empty for absent shows here
	{"string", `""`}, {"integer", `0`}, {"boolean", `false`},
}

// Docs enumerates the base document and every document that differs from it
// in at most k positions (k = 1 or 2; pairs are formed between root-level
// properties), simplest first.
func (m *Model) Docs(k int) []Doc {
	root := m.RootSchema()
	cs := m.cands(root, m.RootPos(), 0)
	var out []Doc
	seen := map[string]bool{}
	add := func(v any, class string) {
		t := jsonv.Text(v)
		if seen[t] {
			return
		}
		seen[t] = true
		out = append(out, Doc{V: v, Text: t, Class: class})
	}
	for i, c := range cs {
		if c.absent {
			continue
		}
		cl := c.class
		if i == 0 {
			cl = "base"
		}
		add(c.v, cl)
	}
	if k >= 2 {
		for _, d := range m.pairs(root) {
			add(d.V, d.Class)
		}
	}
	return out
}

func (m *Model) pairs(root any) []Doc {
	s, ok := root.(map[string]any)
	if !ok {
		return nil
	}
	props, _ := s["properties"].(map[string]any)
	names := jsonv.Keys(props)
	if len(names) < 2 {
		return nil
	}
	base, ok := m.baseValue(root, m.RootPos(), 0).(map[string]any)
	if !ok {
		return nil
	}
	reqd := requiredSet(s)
	var out []Doc
	for i := 0; i < len(names); i++ {
		for j := i + 1; j < len(names); j++ {
			ci := m.propCands(s, names[i], reqd, m.RootPos(), 0)
			cj := m.propCands(s, names[j], reqd, m.RootPos(), 0)
			if len(ci) > 9 {
				ci = ci[:9]
			}
			if len(cj) > 9 {
				cj = cj[:9]
			}
			for _, a := range ci[1:] {
				for _, b := range cj[1:] {
					d := jsonv.Clone(base).(map[string]any)
					setOrDel(d, names[i], a)
					setOrDel(d, names[j], b)
					out = append(out, Doc{V: d, Text: jsonv.Text(d), Class: "pair:" + a.class + "+" + b.class})
				}
			}
		}
	}
	return out
}

func setOrDel(d map[string]any, k string, c cand) {
	if c.absent {
		delete(d, k)
	} else {
		d[k] = jsonv.Clone(c.v)
	}
}

func requiredSet(s S) map[string]bool {
	r := map[string]bool{}
	if rq, ok := s["required"].([]any); ok {
		for _, x := range rq {
			if n, ok := x.(string); ok {
				r[n] = true
			}
		}
	}
	return r
}

// baseValue is the first candidate (valid whenever the schema is satisfiable by the alphabet).
func (m *Model) baseValue(sn any, p Pos, depth int) any {
	cs := m.cands(sn, p, depth)
	if len(cs) == 0 {
		return nil
	}
	return cs[0].v
}

func num(s string) any { return json.Number(s) }

func (m *Model) cands(sn any, p Pos, depth int) []cand {
	if depth > 16 {
		return []cand{{v: nil, class: "depth"}}
	}
	if b, ok := sn.(bool); ok {
		if b {
			sn = map[string]any{}
		} else {
			return []cand{{v: nil, class: "false-schema"}}
		}
	}
	s, ok := sn.(map[string]any)
	if !ok {
		return []cand{{v: nil, class: "null"}}
	}
	if ref, ok := s["$ref"].(string); ok {
		t, file, err := m.Resolve(ref, p.File)
		if err != nil {
			return []cand{{v: nil, class: "unresolved"}}
		}
		np := p
		np.File = file
		np.Named = true
		return m.cands(t, np, depth+1)
	}
	var out []cand
	tl := typeList(s)
	nn := nonNullTypes(tl)
	enum, hasEnum := s["enum"].([]any)
	switch {
	case hasEnum:
		for _, e := range enum {
			out = append(out, cand{v: e, class: "enum-member"})
		}
		for _, e := range enum {
			switch x := e.(type) {
			case string:
				out = append(out, cand{v: x + "x", class: "enum-nonmember:string"}, cand{v: strings.ToUpper(x), class: "enum-nonmember:string"}, cand{v: "", class: "enum-nonmember:string"})
			case json.Number:
				r := rat(x)
				out = append(out, cand{v: num(new(big.Rat).Add(r, big.NewRat(1, 1)).FloatString(0)), class: "enum-nonmember:number"})
				if r.IsInt() {
					out = append(out, cand{v: num(new(big.Rat).Add(r, big.NewRat(1, 2)).FloatString(1)), class: "enum-nonmember:number"})
				}
			case bool:
				out = append(out, cand{v: !x, class: "enum-nonmember:boolean"})
			}
		}
		for _, o := range otherTypeValues {
			out = append(out, cand{v: jsonv.MustParse(o.text), class: "enum-other:" + o.kind})
		}
		out = append(out, cand{v: nil, class: "null"})
	case len(nn) == 0 && len(tl) == 1: // type null
		out = append(out, cand{v: nil, class: "null"})
		for _, o := range otherTypeValues {
			out = append(out, cand{v: jsonv.MustParse(o.text), class: "type:null→" + o.kind})
		}
	case len(nn) == 0 && !hasComposite(s) && s["properties"] == nil: // any
		for _, o := range otherTypeValues {
			out = append(out, cand{v: jsonv.MustParse(o.text), class: "any:" + o.kind})
		}
		out = append(out, cand{v: nil, class: "null"})
	case len(nn) > 1:
		out = append(out, cand{v: "x", class: "multi"}, cand{v: num("1"), class: "multi"})
	default:
		t := "object"
		if len(nn) == 1 {
			t = nn[0]
		}
		switch t {
		case "string":
			out = m.stringCands(s)
		case "integer", "number":
			out = m.numberCands(s, t == "integer")
		case "boolean":
			out = []cand{{v: true, class: "bool"}, {v: false, class: "bool"}}
		case "array":
			out = m.arrayCands(s, p, depth)
		case "object":
			out = m.objectCands(s, p, depth)
		}
		for _, o := range otherTypeValues {
			if o.kind == t || (t == "number" && o.kind == "integer") {
				continue
			}
			out = append(out, cand{v: jsonv.MustParse(o.text), class: "type:" + t + "→" + o.kind})
		}
		out = append(out, cand{v: nil, class: "null"})
	}
	// base first: the first candidate that is valid in the TRUE model
	save, saveF, saveW := m.Dev, m.Fired, m.Why
	m.Dev = map[string]bool{}
	for i, c := range out {
		if c.absent {
			continue
		}
		if m.valid(sn, c.v, p) == Accept {
			if i != 0 {
				b := out[i]
				copy(out[1:i+1], out[0:i])
				out[0] = b
			}
			break
		}
	}
	m.Dev, m.Fired, m.Why = save, saveF, saveW
	return dedupe(out)
}

func dedupe(cs []cand) []cand {
	seen := map[string]bool{}
	out := cs[:0:0]
	for _, c := range cs {
		k := "absent"
		if !c.absent {
			k = jsonv.Text(c.v)
		}
		if seen[k] {
			continue
		}
		seen[k] = true
		out = append(out, c)
	}
	return out
}

func (m *Model) numberCands(s S, isInt bool) []cand {
	var out []cand
	add := func(r *big.Rat, class string) {
		var t string
		if r.IsInt() {
			t = r.Num().String()
		} else {
			t = strings.TrimRight(r.FloatString(6), "0")
		}
		out = append(out, cand{v: num(t), class: class})
	}
	one, half := big.NewRat(1, 1), big.NewRat(1, 2)
	var bounds []*big.Rat
	for _, k := range []string{"minimum", "maximum", "exclusiveMinimum", "exclusiveMaximum"} {
		if r := rat(s[k]); r != nil {
			if _, isBool := s[k].(bool); !isBool {
				bounds = append(bounds, r)
			}
		}
	}
	mo := rat(s["multipleOf"])
	// plausible mid values first (base)
	for _, t := range []string{"7", "2", "1", "0", "3", "6", "12"} {
		add(rat(num(t)), "num:plain")
	}
	if mo != nil {
		for _, k := range []int64{1, 2, 3, 0, -1} {
			add(new(big.Rat).Mul(mo, big.NewRat(k, 1)), "num:multiple")
		}
		add(new(big.Rat).Add(mo, new(big.Rat).Quo(mo, big.NewRat(2, 1))), "num:non-multiple")
		add(new(big.Rat).Neg(new(big.Rat).Add(mo, new(big.Rat).Quo(mo, big.NewRat(2, 1)))), "num:negative-non-multiple")
		add(new(big.Rat).Mul(mo, big.NewRat(-2, 1)), "num:negative-multiple")
		add(new(big.Rat).Add(mo, one), "num:multiple+1")
		if !isInt {
			add(new(big.Rat).Mul(mo, big.NewRat(3, 1)), "num:3x")
			add(new(big.Rat).Add(new(big.Rat).Mul(mo, big.NewRat(3, 1)), big.NewRat(1, 1000)), "num:near-multiple")
		}
	}
	for _, b := range bounds {
		add(b, "num:on-bound")
		add(new(big.Rat).Sub(b, one), "num:bound-1")
		add(new(big.Rat).Add(b, one), "num:bound+1")
		if !isInt {
			add(new(big.Rat).Sub(b, half), "num:bound-½")
			add(new(big.Rat).Add(b, half), "num:bound+½")
		}
		if mo != nil {
			// multiples next to the bound
			q := new(big.Rat).Quo(b, mo)
			fl := new(big.Int).Div(q.Num(), q.Denom())
			for d := int64(-1); d <= 1; d++ {
				kk := new(big.Int).Add(fl, big.NewInt(d))
				add(new(big.Rat).Mul(mo, new(big.Rat).SetInt(kk)), "num:multiple-near-bound")
			}
		}
	}
	if len(bounds) >= 2 {
		add(new(big.Rat).Quo(new(big.Rat).Add(bounds[0], bounds[1]), big.NewRat(2, 1)), "num:between")
	}
	if len(bounds) == 0 && mo == nil {
		if isInt {
			for _, t := range []string{"9223372036854775807", "-9223372036854775808", "9007199254740993", "-1"} {
				out = append(out, cand{v: num(t), class: "num:extreme"})
			}
		} else {
			for _, t := range []string{"0.1", "1e21", "1e-7", "1.7976931348623157e308", "-2.5", "9007199254740992"} {
				out = append(out, cand{v: num(t), class: "num:extreme"})
			}
		}
	}
	if isInt {
		out = append(out, cand{v: num("1.5"), class: "type:integer→non-integral"})
		// keep only integral or the explicit non-integral marker
		f := out[:0]
		for _, c := range out {
			r := rat(c.v)
			if r.IsInt() || c.class == "type:integer→non-integral" {
				f = append(f, c)
			}
		}
		out = f
	}
	return out
}

var (
	patMu    sync.Mutex
	patCache = map[string]map[int][2]string{}
)

var patAlphabet = []string{"a", "b", "c", "é", "1", "-", "Z", "%", "\r", "\n"}

// patternSamples returns, per rune length 0..5, a matching and a non-matching string ("" entries marked by \x00 when none).
func patternSamples(pat string) map[int][2]string {
	patMu.Lock()
	defer patMu.Unlock()
	if r, ok := patCache[pat]; ok {
		return r
	}
	re, err := regexp.Compile(pat)
	res := map[int][2]string{}
	if err == nil {
		var rec func(prefix string, n, want int, hit *[2]string, got *[2]bool)
		rec = func(prefix string, n, want int, hit *[2]string, got *[2]bool) {
			if got[0] && got[1] {
				return
			}
			if n == want {
				if re.MatchString(prefix) {
					if !got[0] {
						hit[0], got[0] = prefix, true
					}
				} else if !got[1] {
					hit[1], got[1] = prefix, true
				}
				return
			}
			for _, a := range patAlphabet {
				rec(prefix+a, n+1, want, hit, got)
			}
		}
		for n := 0; n <= 5; n++ {
			var hit [2]string
			var got [2]bool
			rec("", 0, n, &hit, &got)
			if !got[0] {
				hit[0] = "\x00"
			}
			if !got[1] {
				hit[1] = "\x00"
			}
			res[n] = hit
		}
	}
	patCache[pat] = res
	return res
}

func (m *Model) stringCands(s S) []cand {
	if f, ok := s["format"].(string); ok {
		var out []cand
		for _, x := range FormatSamples[f] {
			out = append(out, cand{v: x, class: "format:" + f})
		}
		if len(out) > 0 {
			return out
		}
	}
	lens := map[int]bool{1: true, 2: true, 0: true, 3: true}
	for _, k := range []string{"minLength", "maxLength"} {
		if n, ok := intKey(s, k); ok {
			for _, d := range []int{-1, 0, 1} {
				if n+d >= 0 {
					lens[n+d] = true
				}
			}
		}
	}
	var ls []int
	for n := range lens {
		ls = append(ls, n)
	}
	sort.Ints(ls)
	// prefer a mid length for the base: try 2,1,3 first
	order := []int{}
	for _, n := range []int{2, 1, 3} {
		if lens[n] {
			order = append(order, n)
		}
	}
	for _, n := range ls {
		if n != 1 && n != 2 && n != 3 {
			order = append(order, n)
		}
	}
	var out []cand
	pat, hasPat := s["pattern"].(string)
	for _, n := range order {
		if hasPat {
			if n <= 5 {
				sm := patternSamples(pat)[n]
				if sm[0] != "\x00" {
					out = append(out, cand{v: sm[0], class: fmt.Sprintf("str:len=%d/match", n)})
				}
				if sm[1] != "\x00" {
					out = append(out, cand{v: sm[1], class: fmt.Sprintf("str:len=%d/nomatch", n)})
				}
			}
			continue
		}
		out = append(out, cand{v: strings.Repeat("a", n), class: fmt.Sprintf("str:len=%d/ascii", n)})
		if n > 0 {
			out = append(out,
				cand{v: strings.Repeat("é", n), class: fmt.Sprintf("str:len=%d/2byte", n)},
				cand{v: strings.Repeat("日", n), class: fmt.Sprintf("str:len=%d/3byte", n)},
				cand{v: strings.Repeat("𝄞", n), class: fmt.Sprintf("str:len=%d/4byte", n)})
		}
	}
	if hasPat {
		// multi-byte strings of limit lengths that match / do not match
		for _, n := range order {
			if n == 0 || n > 5 {
				continue
			}
			x := strings.Repeat("é", n)
			out = append(out, cand{v: x, class: fmt.Sprintf("str:len=%d/2byte/pat", n)})
		}
	} else {
		out = append(out, cand{v: "a\"\\\n\t\u0000é😀", class: "str:escapes"})
	}
	return out
}

func (m *Model) arrayCands(s S, p Pos, depth int) []cand {
	items, hasItems := s["items"]
	ip := p
	ip.Kind = "item"
	ip.Optional = false
	ip.Named = false
	ip.ArrDepth = p.ArrDepth + 1
	if p.ArrDepth == 0 || p.Outer == nil {
		ip.Outer = s
	}
	var ics []cand
	if hasItems {
		ics = m.cands(items, ip, depth+1)
	} else {
		ics = []cand{{v: num("1"), class: "any"}, {v: "x", class: "any"}}
	}
	base := ics[0].v
	lens := map[int]bool{1: true, 0: true, 2: true}
	mn := 0
	for _, k := range []string{"minItems", "maxItems"} {
		if n, ok := intKey(s, k); ok {
			if k == "minItems" {
				mn = n
			}
			for _, d := range []int{-1, 0, 1} {
				if n+d >= 0 {
					lens[n+d] = true
				}
			}
		}
	}
	var ls []int
	for n := range lens {
		ls = append(ls, n)
	}
	sort.Ints(ls)
	var out []cand
	mk := func(n int, last any) []any {
		a := make([]any, n)
		for i := range a {
			a[i] = jsonv.Clone(base)
		}
		if n > 0 && last != nil {
			a[n-1] = last
		}
		return a
	}
	// base length: max(min,1) if allowed
	bl := mn
	if bl < 1 {
		bl = 1
	}
	out = append(out, cand{v: mk(bl, nil), class: fmt.Sprintf("arr:len=%d", bl)})
	for _, n := range ls {
		out = append(out, cand{v: mk(n, nil), class: fmt.Sprintf("arr:len=%d", n)})
	}
	for _, c := range ics[1:] {
		if c.absent {
			continue
		}
		a := mk(bl, nil)
		a[bl-1] = jsonv.Clone(c.v)
		out = append(out, cand{v: a, class: "item:" + c.class})
	}
	return out
}

func (m *Model) propCands(s S, name string, reqd map[string]bool, p Pos, depth int) []cand {
	props, _ := s["properties"].(map[string]any)
	ps := props[name]
	pp := p
	pp.Kind = "prop"
	pp.Named = false
	pp.ArrDepth = 0
	pp.Outer = nil
	pp.Optional = !reqd[name]
	if pm, ok := ps.(map[string]any); ok {
		if _, d := pm["default"]; d {
			pp.Optional = true
		}
	}
	cs := m.cands(ps, pp, depth+1)
	out := append([]cand{}, cs[:1]...)
	out = append(out, cand{absent: true, class: "absent"})
	out = append(out, cs[1:]...)
	return out
}

func (m *Model) objectCands(s S, p Pos, depth int) []cand {
	props, _ := s["properties"].(map[string]any)
	all := map[string]propAt{}
	m.declaredProps(s, p.File, all, 0)
	ap, hasAP := s["additionalProperties"]
	if len(all) == 0 {
		// pure map
		var vcs []cand
		if hasAP {
			mp := p
			mp.Kind = "mapval"
			mp.InMap = true
			mp.Named = false
			vcs = m.cands(ap, mp, depth+1)
		} else {
			vcs = []cand{{v: "x", class: "any"}, {v: num("1"), class: "any"}, {v: map[string]any{"n": num("1")}, class: "any"}}
		}
		out := []cand{
			{v: map[string]any{"k1": jsonv.Clone(vcs[0].v)}, class: "map:1"},
			{v: map[string]any{}, class: "map:0"},
			{v: map[string]any{"k1": jsonv.Clone(vcs[0].v), "K 2": jsonv.Clone(vcs[0].v)}, class: "map:2"},
		}
		for _, c := range vcs[1:] {
			if !c.absent {
				out = append(out, cand{v: map[string]any{"k1": jsonv.Clone(c.v)}, class: "mapval:" + c.class})
			}
		}
		return out
	}
	reqd := requiredSet(s)
	// composite: branch-declared properties take part with the branch's own required list
	type pc struct {
		name string
		cs   []cand
	}
	var pcs []pc
	names := make([]string, 0, len(all))
	for k := range all {
		names = append(names, k)
	}
	sort.Strings(names)
	for _, n := range names {
		if _, own := props[n]; own {
			pcs = append(pcs, pc{n, m.propCands(s, n, reqd, p, depth)})
			continue
		}
		pa := all[n]
		pp := p
		pp.Kind = "prop"
		pp.File = pa.file
		pp.Optional = true
		cs := m.cands(pa.s, pp, depth+1)
		cc := append([]cand{}, cs[:1]...)
		cc = append(cc, cand{absent: true, class: "absent"})
		cc = append(cc, cs[1:]...)
		pcs = append(pcs, pc{n, cc})
	}
	base := map[string]any{}
	for _, x := range pcs {
		if depth > 9 && !reqd[x.name] {
			continue // deep inside a recursive schema: the base document stops at optional properties
		}
		base[x.name] = jsonv.Clone(x.cs[0].v)
	}
	out := []cand{{v: base, class: "obj:base"}}
	for _, x := range pcs {
		for _, c := range x.cs[1:] {
			d := jsonv.Clone(base).(map[string]any)
			setOrDel(d, x.name, c)
			out = append(out, cand{v: d, class: x.name + ":" + c.class})
		}
	}
	// undeclared keys
	extra := func(v any, class string) {
		d := jsonv.Clone(base).(map[string]any)
		d["extra"] = v
		out = append(out, cand{v: d, class: class})
	}
	if !hasAP {
		extra("x", "extra-key")
	} else if b, isBool := ap.(bool); isBool {
		if b {
			for _, o := range otherTypeValues {
				extra(jsonv.MustParse(o.text), "addl:any:"+o.kind)
			}
			d := jsonv.Clone(base).(map[string]any)
			d["extra"] = "x"
			d["Extra 2"] = num("2")
			out = append(out, cand{v: d, class: "addl:2keys"})
		}
	} else {
		app := p
		app.Kind = "addl"
		app.InMap = true
		app.Named = false
		for _, c := range m.cands(ap, app, depth+1) {
			if !c.absent {
				extra(jsonv.Clone(c.v), "addl:"+c.class)
			}
		}
	}
	return out
}

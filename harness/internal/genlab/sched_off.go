//go:build !verif

package genlab

// Instrumented reports whether the map-iteration scheduler is linked in.
const Instrumented = false

func setSchedule(s []int) {}

func getTrace() []TracePoint { return nil }

package genlab

import (
	"bufio"
	"crypto/sha256"
	"encoding/hex"
	"encoding/json"
	"fmt"
	"io"
	"os"
	"os/exec"
	"path/filepath"
	"runtime"
	"strings"
	"sync"
	"time"

	"verif/internal/gocheck"
)

// Job is one unit of work for a worker subprocess.
type Job struct {
	Seq         int    `json:"seq"`
	Op          string `json:"op"` // "gen"
	Case        *Case  `json:"case,omitempty"`
	Check       bool   `json:"check,omitempty"`       // run gocheck on each output
	KeepOutputs bool   `json:"keepOutputs,omitempty"` // return the sources
	WriteTo     string `json:"writeTo,omitempty"`     // write outputs as files into this directory (E5)
	Repeat      int    `json:"repeat,omitempty"`      // run the case N extra times in the same process and compare
	Schedule    []int  `json:"schedule,omitempty"`    // map-iteration schedule (instrumented build only)
	UseSchedule bool   `json:"useSchedule,omitempty"`
	InDir       string `json:"inDir,omitempty"` // materialise the case here instead of the worker's own directory
}

// TracePoint is one map-iteration choice point met during a run.
type TracePoint struct {
	Site    string `json:"site"`
	N       int    `json:"n"`
	Choices int    `json:"choices"`
	Full    bool   `json:"full"`
}

// Resp is a worker's answer.
type Resp struct {
	Seq      int                     `json:"seq"`
	Res      Result                  `json:"res"`
	Diags    map[string]gocheck.Diag `json:"diags,omitempty"`
	Hashes   map[string]string       `json:"hashes,omitempty"`
	Crash    string                  `json:"crash,omitempty"` // worker died (fatal error): stderr tail
	Hang     bool                    `json:"hang,omitempty"`
	Unstable string                  `json:"unstable,omitempty"`
	Trace    []TracePoint            `json:"trace,omitempty"`
}

func Hash(s string) string {
	h := sha256.Sum256([]byte(s))
	return hex.EncodeToString(h[:8])
}

// WorkerMain is the body of `vcheck worker`.
func WorkerMain(exportList string) {
	var chk *gocheck.Checker
	if exportList != "" {
		var err error
		chk, err = gocheck.Load(exportList)
		if err != nil {
			fmt.Fprintln(os.Stderr, "worker: cannot load export list:", err)
			os.Exit(3)
		}
	}
	// memory watchdog: a runaway generation (unbounded recursion that keeps allocating) must not exhaust the sandbox
	go func() {
		var ms runtime.MemStats
		for {
			time.Sleep(50 * time.Millisecond)
			runtime.ReadMemStats(&ms)
			if ms.HeapAlloc > 2<<30 || ms.StackInuse > 900<<20 {
				fmt.Fprintf(os.Stderr, "\nfatal: RUNAWAY generation: heap %d MiB, stack %d MiB - worker gives up (non-termination)\n", ms.HeapAlloc>>20, ms.StackInuse>>20)
				os.Exit(3)
			}
		}
	}()
	dir, err := os.MkdirTemp(os.Getenv("VERIF_SCRATCH"), "w-")
	if err != nil {
		fmt.Fprintln(os.Stderr, "worker:", err)
		os.Exit(3)
	}
	defer os.RemoveAll(dir)
	in := bufio.NewReaderSize(os.Stdin, 1<<20)
	out := bufio.NewWriterSize(os.Stdout, 1<<20)
	dec := json.NewDecoder(in)
	enc := json.NewEncoder(out)
	for {
		var j Job
		if err := dec.Decode(&j); err != nil {
			if err == io.EOF {
				return
			}
			fmt.Fprintln(os.Stderr, "worker: bad job:", err)
			os.Exit(3)
		}
		fmt.Fprintf(os.Stderr, "BEGIN %d %s\n", j.Seq, j.Case.ID)
		r := Resp{Seq: j.Seq}
		cdir := filepath.Join(dir, "c")
		if j.InDir != "" {
			cdir = j.InDir
		}
		if j.UseSchedule {
			setSchedule(j.Schedule)
		}
		r.Res = Gen(cdir, *j.Case)
		if j.UseSchedule {
			r.Trace = getTrace()
			setSchedule(nil)
		}
		for k := 0; k < j.Repeat; k++ {
			r2 := Gen(cdir, *j.Case)
			if !sameResult(r.Res, r2) {
				r.Unstable = fmt.Sprintf("run %d differs from run 0", k+1)
			}
		}
		r.Hashes = map[string]string{}
		for n, s := range r.Res.Outputs {
			r.Hashes[n] = Hash(s)
		}
		if j.Check && chk != nil {
			r.Diags = map[string]gocheck.Diag{}
			for n, s := range r.Res.Outputs {
				r.Diags[n] = chk.Check("g.go", s)
			}
		}
		if j.WriteTo != "" && r.Res.Err == "" && r.Res.Panic == "" {
			_ = os.MkdirAll(j.WriteTo, 0o755)
			for n, s := range r.Res.Outputs {
				fn := "g.go"
				if n != "-" {
					fn = strings.ReplaceAll(n, "/", "_")
				}
				_ = os.WriteFile(filepath.Join(j.WriteTo, fn), []byte(s), 0o644)
			}
		}
		if !j.KeepOutputs {
			r.Res.Outputs = nil
		}
		if err := enc.Encode(&r); err != nil {
			fmt.Fprintln(os.Stderr, "worker: encode:", err)
			os.Exit(3)
		}
		out.Flush()
	}
}

func sameResult(a, b Result) bool {
	if a.Err != b.Err || (a.Panic == "") != (b.Panic == "") || len(a.Outputs) != len(b.Outputs) {
		return false
	}
	for k, v := range a.Outputs {
		if b.Outputs[k] != v {
			return false
		}
	}
	return true
}

// Pool runs jobs on worker subprocesses of the same binary.
type Pool struct {
	Exe     string
	Args    []string
	N       int
	Timeout time.Duration
}

func NewPool(exportList string) *Pool {
	exe, _ := os.Executable()
	n := runtime.NumCPU()
	return &Pool{Exe: exe, Args: []string{"worker", exportList}, N: n, Timeout: 60 * time.Second}
}

type tail struct {
	mu  sync.Mutex
	buf []byte
}

func (t *tail) Write(p []byte) (int, error) {
	t.mu.Lock()
	defer t.mu.Unlock()
	t.buf = append(t.buf, p...)
	if len(t.buf) > 16384 {
		t.buf = t.buf[len(t.buf)-8192:]
	}
	return len(p), nil
}

func (t *tail) String() string {
	t.mu.Lock()
	defer t.mu.Unlock()
	s := string(t.buf)
	// keep from the last BEGIN on
	if i := strings.LastIndex(s, "BEGIN "); i >= 0 {
		s = s[i:]
	}
	if len(s) > 3000 {
		s = s[:3000]
	}
	return s
}

type proc struct {
	cmd *exec.Cmd
	in  io.WriteCloser
	out *bufio.Reader
	err *tail
}

func (p *Pool) start() (*proc, error) {
	cmd := exec.Command(p.Exe, p.Args...)
	cmd.Env = append(os.Environ(), "GOMAXPROCS=2")
	in, err := cmd.StdinPipe()
	if err != nil {
		return nil, err
	}
	out, err := cmd.StdoutPipe()
	if err != nil {
		return nil, err
	}
	t := &tail{}
	cmd.Stderr = t
	if err := cmd.Start(); err != nil {
		return nil, err
	}
	return &proc{cmd: cmd, in: in, out: bufio.NewReaderSize(out, 1<<20), err: t}, nil
}

func (pr *proc) stop() {
	if pr == nil {
		return
	}
	pr.in.Close()
	done := make(chan struct{})
	go func() { pr.cmd.Wait(); close(done) }()
	select {
	case <-done:
	case <-time.After(2 * time.Second):
		pr.cmd.Process.Kill()
		<-done
	}
}

// Run executes all jobs; fn is called (serialised) once per job, in completion order.
func (p *Pool) Run(jobs []Job, fn func(j *Job, r *Resp)) error {
	ch := make(chan int)
	var mu sync.Mutex
	var wg sync.WaitGroup
	var firstErr error
	n := p.N
	if n > len(jobs) {
		n = len(jobs)
	}
	for w := 0; w < n; w++ {
		wg.Add(1)
		go func() {
			defer wg.Done()
			var pr *proc
			defer func() { pr.stop() }()
			for i := range ch {
				j := &jobs[i]
				j.Seq = i
				if pr == nil {
					var err error
					pr, err = p.start()
					if err != nil {
						mu.Lock()
						if firstErr == nil {
							firstErr = err
						}
						mu.Unlock()
						continue
					}
				}
				resp := p.one(pr, j)
				if resp.Crash != "" || resp.Hang {
					pr.cmd.Process.Kill()
					pr.cmd.Wait()
					pr = nil
				}
				mu.Lock()
				fn(j, resp)
				mu.Unlock()
			}
		}()
	}
	for i := range jobs {
		ch <- i
	}
	close(ch)
	wg.Wait()
	return firstErr
}

func (p *Pool) one(pr *proc, j *Job) *Resp {
	b, _ := json.Marshal(j)
	b = append(b, '\n')
	type rd struct {
		line []byte
		err  error
	}
	done := make(chan rd, 1)
	go func() {
		if _, err := pr.in.Write(b); err != nil {
			done <- rd{nil, err}
			return
		}
		line, err := pr.out.ReadBytes('\n')
		done <- rd{line, err}
	}()
	select {
	case r := <-done:
		if r.err != nil {
			time.Sleep(50 * time.Millisecond) // let stderr drain
			return &Resp{Seq: j.Seq, Crash: pr.err.String()}
		}
		var resp Resp
		if err := json.Unmarshal(r.line, &resp); err != nil {
			return &Resp{Seq: j.Seq, Crash: "bad response: " + err.Error()}
		}
		return &resp
	case <-time.After(p.Timeout):
		return &Resp{Seq: j.Seq, Hang: true}
	}
}

// RunAll is Run collecting responses by job index.
func (p *Pool) RunAll(jobs []Job) ([]*Resp, error) {
	out := make([]*Resp, len(jobs))
	err := p.Run(jobs, func(j *Job, r *Resp) { out[j.Seq] = r })
	return out, err
}

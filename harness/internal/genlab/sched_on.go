//go:build verif

package genlab

import verifrt "github.com/atombender/go-jsonschema/pkg/verifrt"

// Instrumented reports whether the map-iteration scheduler is linked in.
const Instrumented = true

func setSchedule(s []int) { verifrt.Set(s) }

func getTrace() []TracePoint {
	var out []TracePoint
	for _, p := range verifrt.Trace() {
		out = append(out, TracePoint{Site: p.Site, N: p.N, Choices: p.Choices, Full: p.Full})
	}
	return out
}

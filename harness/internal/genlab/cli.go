package genlab

import (
	"bytes"
	"context"
	"fmt"
	"os"
	"os/exec"
	"path/filepath"
	"sort"
	"strings"
	"time"
)

// CLIResult is what one run of the real binary did.
type CLIResult struct {
	Exit     int
	Stdout   string
	Stderr   string
	TimedOut bool
	Files    map[string]string // files below the working directory after the run (relative path -> content)
}

// Flags renders a Cfg as command-line flags (the inverse of main.go's wiring).
func (c Cfg) Flags() []string {
	var f []string
	if c.Package != "" {
		f = append(f, "--package", c.Package)
	}
	if c.Output != "" {
		f = append(f, "--output", c.Output)
	}
	if c.ExtraImports {
		f = append(f, "--extra-imports")
	}
	if c.OnlyModels {
		f = append(f, "--only-models")
	}
	if c.MinSizedInts {
		f = append(f, "--min-sized-ints")
	}
	if c.StructNameFromTitle {
		f = append(f, "--struct-name-from-title")
	}
	if c.Tags != nil {
		f = append(f, "--tags", strings.Join(c.Tags, ","))
	}
	for _, x := range c.Caps {
		f = append(f, "--capitalization", x)
	}
	for _, x := range c.ResolveExt {
		f = append(f, "--resolve-extension", x)
	}
	if c.YAMLExt != nil {
		f = append(f, "--yaml-extension", strings.Join(c.YAMLExt, ","))
	}
	for _, m := range c.Mappings {
		if m.Package != "" {
			f = append(f, "--schema-package", m.ID+"="+m.Package)
		}
		if m.Output != "" {
			f = append(f, "--schema-output", m.ID+"="+m.Output)
		}
		if m.Root != "" {
			f = append(f, "--schema-root-type", m.ID+"="+m.Root)
		}
	}
	return f
}

// RunCLI runs the binary in dir with args; stdin may be empty. The directory tree is read back afterwards.
func RunCLI(bin, dir string, args []string, stdin string, timeout time.Duration) CLIResult {
	return RunCLITo(bin, dir, args, stdin, timeout, "")
}

// RunCLITo is RunCLI with the standard output connected to the named file or device (fault injection: /dev/full) instead of a pipe.
func RunCLITo(bin, dir string, args []string, stdin string, timeout time.Duration, stdoutPath string) CLIResult {
	ctx, cancel := context.WithTimeout(context.Background(), timeout)
	defer cancel()
	cmd := exec.CommandContext(ctx, bin, args...)
	cmd.Dir = dir
	cmd.Stdin = strings.NewReader(stdin)
	var so, se bytes.Buffer
	cmd.Stdout, cmd.Stderr = &so, &se
	if stdoutPath != "" {
		f, err := os.OpenFile(stdoutPath, os.O_WRONLY, 0)
		if err != nil {
			return CLIResult{Exit: -1, Stderr: "HARNESS: cannot open " + stdoutPath + ": " + err.Error()}
		}
		defer f.Close()
		cmd.Stdout = f
	}
	runaway := false
	err := cmd.Start()
	if err == nil {
		// memory watchdog: a generation that does not terminate allocates several hundred MB per second and the sandbox has no
		// memory limit - a process above 2 GiB resident is killed and reported like a hang
		done := make(chan struct{})
		go func() {
			t := time.NewTicker(50 * time.Millisecond)
			defer t.Stop()
			for {
				select {
				case <-done:
					return
				case <-t.C:
					if rssKiB(cmd.Process.Pid) > 2<<20 {
						runaway = true
						cmd.Process.Kill()
						return
					}
				}
			}
		}()
		err = cmd.Wait()
		close(done)
	}
	r := CLIResult{Stdout: so.String(), Stderr: se.String()}
	if ctx.Err() != nil || runaway {
		r.TimedOut = true
		if runaway {
			r.Stderr += "\nRUNAWAY: resident memory above 2 GiB, killed by the harness"
		}
	}
	if err != nil {
		if ee, ok := err.(*exec.ExitError); ok {
			r.Exit = ee.ExitCode()
		} else {
			r.Exit = -1
		}
	}
	r.Files = ReadTree(dir)
	return r
}

// ReadTree reads every regular file below dir.
func ReadTree(dir string) map[string]string {
	out := map[string]string{}
	filepath.Walk(dir, func(p string, info os.FileInfo, err error) error {
		if err != nil || info.IsDir() {
			return nil
		}
		rel, _ := filepath.Rel(dir, p)
		if info.Mode().IsRegular() {
			b, _ := os.ReadFile(p)
			out[rel] = string(b)
		} else {
			out[rel] = "<" + info.Mode().String() + ">"
		}
		return nil
	})
	return out
}

// TreeNames returns the sorted keys.
func TreeNames(t map[string]string) []string {
	n := make([]string, 0, len(t))
	for k := range t {
		n = append(n, k)
	}
	sort.Strings(n)
	return n
}

// rssKiB reads VmRSS of a process (0 if unavailable).
func rssKiB(pid int) int {
	b, err := os.ReadFile(fmt.Sprintf("/proc/%d/status", pid))
	if err != nil {
		return 0
	}
	for _, l := range strings.Split(string(b), "\n") {
		if strings.HasPrefix(l, "VmRSS:") {
			var n int
			fmt.Sscanf(strings.TrimSpace(strings.TrimPrefix(l, "VmRSS:")), "%d", &n)
			return n
		}
	}
	return 0
}

// Package genlab drives the real generator (library, in-process) on a case
// materialised on disk. It is used inside worker subprocesses so that a Go
// fatal error (stack overflow, OOM) is attributed to the case that caused it.
package genlab

import (
	"fmt"
	"os"
	"path/filepath"
	"runtime/debug"
	"sort"
	"strings"

	"github.com/atombender/go-jsonschema/pkg/generator"
)

// Mapping mirrors generator.SchemaMapping.
type Mapping struct {
	ID      string `json:"id"`
	Package string `json:"pkg,omitempty"`
	Output  string `json:"out,omitempty"`
	Root    string `json:"root,omitempty"`
}

// Cfg mirrors generator.Config (serialisable part).
type Cfg struct {
	ExtraImports        bool      `json:"extraImports,omitempty"`
	OnlyModels          bool      `json:"onlyModels,omitempty"`
	MinSizedInts        bool      `json:"minSizedInts,omitempty"`
	StructNameFromTitle bool      `json:"structNameFromTitle,omitempty"`
	Tags                []string  `json:"tags"` // nil => default json,yaml,mapstructure
	Caps                []string  `json:"caps,omitempty"`
	ResolveExt          []string  `json:"resolveExt,omitempty"`
	YAMLExt             []string  `json:"yamlExt,omitempty"` // nil => .yml,.yaml
	Package             string    `json:"package,omitempty"`
	Output              string    `json:"output,omitempty"` // "" => "-"
	Mappings            []Mapping `json:"mappings,omitempty"`
	NoTagsDefault       bool      `json:"noTagsDefault,omitempty"` // Tags really empty
}

// File is one input file, path relative to the case directory.
type File struct {
	Path    string `json:"path"`
	Content string `json:"content"`
	Link    string `json:"link,omitempty"` // non-empty: Path is a symbolic link to this target (relative to the link's directory), Content is unused
}

// Case is one generator invocation: files on disk, DoFile order, options.
type Case struct {
	ID    string   `json:"id"`
	Files []File   `json:"files"`
	Args  []string `json:"args"` // DoFile order; relative paths (resolved against the case dir)
	Cfg   Cfg      `json:"cfg"`
}

// Result is what the generator did.
type Result struct {
	Outputs  map[string]string `json:"outputs,omitempty"` // output name -> source
	Warnings []string          `json:"warnings,omitempty"`
	Err      string            `json:"err,omitempty"`   // DoFile / New error
	Panic    string            `json:"panic,omitempty"` // recovered panic
	ErrAt    int               `json:"errAt,omitempty"` // index of failing DoFile
}

func (c Cfg) ToConfig(warn func(string)) generator.Config {
	tags := c.Tags
	if tags == nil && !c.NoTagsDefault {
		tags = []string{"json", "yaml", "mapstructure"}
	}
	yext := c.YAMLExt
	if yext == nil {
		yext = []string{".yml", ".yaml"}
	}
	out := c.Output
	if out == "" {
		out = "-"
	}
	cfg := generator.Config{
		Warner:              warn,
		ExtraImports:        c.ExtraImports,
		Capitalizations:     c.Caps,
		DefaultOutputName:   out,
		DefaultPackageName:  c.Package,
		ResolveExtensions:   c.ResolveExt,
		YAMLExtensions:      yext,
		StructNameFromTitle: c.StructNameFromTitle,
		Tags:                tags,
		OnlyModels:          c.OnlyModels,
		MinSizedInts:        c.MinSizedInts,
		SchemaMappings:      []generator.SchemaMapping{},
	}
	for _, m := range c.Mappings {
		if m.Package == "" {
			// the command line's contract: a per-schema mapping given without --schema-package uses the default package
			m.Package = c.Package
		}
		cfg.SchemaMappings = append(cfg.SchemaMappings, generator.SchemaMapping{
			SchemaID: m.ID, PackageName: m.Package, RootType: m.Root, OutputName: m.Output,
		})
	}
	return cfg
}

// Materialise writes the case files below dir (dir is emptied first).
func Materialise(dir string, files []File) error {
	if err := os.RemoveAll(dir); err != nil {
		return err
	}
	if err := os.MkdirAll(dir, 0o755); err != nil {
		return err
	}
	for _, f := range files {
		p := filepath.Join(dir, f.Path)
		if err := os.MkdirAll(filepath.Dir(p), 0o755); err != nil {
			return err
		}
		if f.Link != "" {
			if err := os.Symlink(f.Link, p); err != nil {
				return err
			}
			continue
		}
		if err := os.WriteFile(p, []byte(f.Content), 0o644); err != nil {
			return err
		}
	}
	return nil
}

// Gen runs the real generator library on the case, files materialised in dir.
func Gen(dir string, c Case) (res Result) {
	if err := Materialise(dir, c.Files); err != nil {
		res.Err = "HARNESS: " + err.Error()
		return
	}
	return GenIn(dir, c)
}

// GenIn runs the generator on files already present in dir.
func GenIn(dir string, c Case) (res Result) {
	defer func() {
		if r := recover(); r != nil {
			res.Panic = fmt.Sprintf("%v\n%s", r, trimStack(string(debug.Stack())))
		}
	}()
	var warnings []string
	cfg := c.Cfg.ToConfig(func(s string) { warnings = append(warnings, s) })
	g, err := generator.New(cfg)
	if err != nil {
		res.Err = err.Error()
		return
	}
	for i, a := range c.Args {
		p := a
		if !filepath.IsAbs(a) && a != "-" {
			p = filepath.Join(dir, a)
		}
		if err := g.DoFile(p); err != nil {
			res.Err = strings.ReplaceAll(err.Error(), dir, "$DIR")
			res.ErrAt = i
			res.Warnings = clean(warnings, dir)
			return
		}
	}
	srcs := g.Sources()
	res.Outputs = make(map[string]string, len(srcs))
	for k, v := range srcs {
		res.Outputs[k] = string(v)
	}
	res.Warnings = clean(warnings, dir)
	return
}

func clean(w []string, dir string) []string {
	for i := range w {
		w[i] = strings.ReplaceAll(w[i], dir, "$DIR")
	}
	return w
}

func trimStack(s string) string {
	lines := strings.Split(s, "\n")
	if len(lines) > 40 {
		lines = lines[:40]
	}
	return strings.Join(lines, "\n")
}

// OutputNames returns the sorted output names.
func (r Result) OutputNames() []string {
	n := make([]string, 0, len(r.Outputs))
	for k := range r.Outputs {
		n = append(n, k)
	}
	sort.Strings(n)
	return n
}

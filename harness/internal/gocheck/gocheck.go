// Package gocheck decides "is this emitted file valid, gofmt-stable Go that
// type-checks against exactly the imports it declares" with go/parser,
// go/format and go/types. Imports are served from compiler export data of a
// closed set of packages (std + yaml.v3 + mapstructure + pkg/types), so a
// missing import is "undefined", an unused one is "imported and not used".
package gocheck

import (
	"bufio"
	"bytes"
	"fmt"
	"go/ast"
	"go/format"
	"go/importer"
	"go/parser"
	"go/token"
	"go/types"
	"io"
	"os"
	"sort"
	"strings"
)

// Diag is the verdict for one file (or one package of several files).
type Diag struct {
	ParseErr  string   `json:"parseErr,omitempty"`
	NotGofmt  bool     `json:"notGofmt,omitempty"`
	TypeErrs  []string `json:"typeErrs,omitempty"`
	PkgName   string   `json:"pkgName,omitempty"`
	TypeNames []string `json:"typeNames,omitempty"`
}

func (d Diag) OK() bool { return d.ParseErr == "" && !d.NotGofmt && len(d.TypeErrs) == 0 }

func (d Diag) Summary() string {
	var s []string
	if d.ParseErr != "" {
		s = append(s, "parse: "+d.ParseErr)
	}
	if d.NotGofmt {
		s = append(s, "not gofmt-stable")
	}
	for _, e := range d.TypeErrs {
		s = append(s, "types: "+e)
	}
	return strings.Join(s, " | ")
}

// Checker holds the export-data map.
type Checker struct {
	exports map[string]string
	imp     types.Importer
	fset    *token.FileSet
	extra   map[string]*types.Package
}

// Load reads "importpath exportfile" lines as printed by
// go list -export -deps -f '{{.ImportPath}} {{.Export}}'.
func Load(listFile string) (*Checker, error) {
	f, err := os.Open(listFile)
	if err != nil {
		return nil, err
	}
	defer f.Close()
	c := &Checker{exports: map[string]string{}, fset: token.NewFileSet(), extra: map[string]*types.Package{}}
	sc := bufio.NewScanner(f)
	for sc.Scan() {
		p := strings.Fields(sc.Text())
		if len(p) == 2 {
			c.exports[p[0]] = p[1]
		}
	}
	c.imp = importer.ForCompiler(c.fset, "gc", func(path string) (io.ReadCloser, error) {
		e, ok := c.exports[path]
		if !ok {
			return nil, fmt.Errorf("package %q is not available to generated code", path)
		}
		return os.Open(e)
	})
	return c, nil
}

type impFn func(path string) (*types.Package, error)

func (f impFn) Import(path string) (*types.Package, error) { return f(path) }

// SetExtra registers already-checked packages of the same run (cross-package cases).
func (c *Checker) SetExtra(m map[string]*types.Package) { c.extra = m }

// Check checks one file as a package of its own.
func (c *Checker) Check(name, src string) Diag {
	d, _ := c.CheckPkg(map[string]string{name: src}, "")
	return d
}

// CheckPkg checks several files as one package and returns the types.Package
// (for use as an import of other generated packages).
func (c *Checker) CheckPkg(files map[string]string, pkgPath string) (Diag, *types.Package) {
	var d Diag
	fset := token.NewFileSet()
	var parsed []*ast.File
	names := make([]string, 0, len(files))
	for n := range files {
		names = append(names, n)
	}
	sort.Strings(names)
	for _, n := range names {
		src := files[n]
		f, err := parser.ParseFile(fset, n, src, parser.ParseComments|parser.SkipObjectResolution)
		if err != nil {
			d.ParseErr = err.Error()
			return d, nil
		}
		out, err := format.Source([]byte(src))
		if err != nil || !bytes.Equal(out, []byte(src)) {
			d.NotGofmt = true
		}
		parsed = append(parsed, f)
		d.PkgName = f.Name.Name
	}
	if pkgPath == "" {
		pkgPath = d.PkgName
	}
	conf := types.Config{
		Importer: impFn(func(path string) (*types.Package, error) {
			if p, ok := c.extra[path]; ok {
				return p, nil
			}
			return c.imp.Import(path)
		}),
		Error: func(err error) {
			if len(d.TypeErrs) < 12 {
				msg := err.Error()
				if te, ok := err.(types.Error); ok {
					msg = te.Msg
				}
				d.TypeErrs = append(d.TypeErrs, msg)
			}
		},
	}
	pkg, _ := conf.Check(pkgPath, fset, parsed, nil)
	if pkg != nil {
		for _, n := range pkg.Scope().Names() {
			if _, ok := pkg.Scope().Lookup(n).(*types.TypeName); ok {
				d.TypeNames = append(d.TypeNames, n)
			}
		}
	}
	return d, pkg
}

// Package jsonv has helpers for generic JSON values whose numbers are kept as
// decimal text (json.Number) and compared as exact rationals.
package jsonv

import (
	"bytes"
	"encoding/json"
	"fmt"
	"math/big"
	"sort"
	"strings"
)

// Parse decodes one JSON value keeping numbers as json.Number.
func Parse(s string) (any, error) {
	d := json.NewDecoder(strings.NewReader(s))
	d.UseNumber()
	var v any
	if err := d.Decode(&v); err != nil {
		return nil, err
	}
	if d.More() {
		return nil, fmt.Errorf("trailing data")
	}
	return v, nil
}

// MustParse panics on error.
func MustParse(s string) any {
	v, err := Parse(s)
	if err != nil {
		panic(fmt.Sprintf("jsonv.MustParse(%q): %v", s, err))
	}
	return v
}

// Norm converts Go-native numbers (int, float64 ...) in a tree to json.Number.
func Norm(v any) any {
	b, err := json.Marshal(v)
	if err != nil {
		panic(err)
	}
	return MustParse(string(b))
}

// Text renders a value as compact JSON (sorted keys, no HTML escaping).
func Text(v any) string {
	var buf bytes.Buffer
	e := json.NewEncoder(&buf)
	e.SetEscapeHTML(false)
	if err := e.Encode(v); err != nil {
		panic(err)
	}
	return strings.TrimRight(buf.String(), "\n")
}

// Rat converts a number to an exact rational; ok=false if it is not a number.
func Rat(v any) (*big.Rat, bool) {
	switch n := v.(type) {
	case json.Number:
		r, ok := new(big.Rat).SetString(string(n))
		return r, ok
	case float64:
		r := new(big.Rat)
		if r.SetFloat64(n) == nil {
			return nil, false
		}
		return r, true
	case int:
		return new(big.Rat).SetInt64(int64(n)), true
	case int64:
		return new(big.Rat).SetInt64(n), true
	}
	return nil, false
}

// Kind returns the JSON type name of v: null boolean number string array object.
func Kind(v any) string {
	switch v.(type) {
	case nil:
		return "null"
	case bool:
		return "boolean"
	case json.Number, float64, int, int64:
		return "number"
	case string:
		return "string"
	case []any:
		return "array"
	case map[string]any:
		return "object"
	}
	return fmt.Sprintf("?%T", v)
}

// Equal is JSON equality: numbers by value, objects by key set, arrays by position.
func Equal(a, b any) bool {
	ka, kb := Kind(a), Kind(b)
	if ka != kb {
		return false
	}
	switch ka {
	case "null":
		return true
	case "boolean":
		return a.(bool) == b.(bool)
	case "string":
		return a.(string) == b.(string)
	case "number":
		ra, ok1 := Rat(a)
		rb, ok2 := Rat(b)
		return ok1 && ok2 && ra.Cmp(rb) == 0
	case "array":
		x, y := a.([]any), b.([]any)
		if len(x) != len(y) {
			return false
		}
		for i := range x {
			if !Equal(x[i], y[i]) {
				return false
			}
		}
		return true
	case "object":
		x, y := a.(map[string]any), b.(map[string]any)
		if len(x) != len(y) {
			return false
		}
		for k, v := range x {
			w, ok := y[k]
			if !ok || !Equal(v, w) {
				return false
			}
		}
		return true
	}
	return false
}

// Diff returns a short description of the first difference between want and got ("" if equal).
func Diff(path string, want, got any) string {
	kw, kg := Kind(want), Kind(got)
	if want == nil && IsEmptyDeep(got) {
		return "" // null decoded into a non-pointer Go value is its zero value
	}
	if kw != kg {
		return fmt.Sprintf("%s: want %s, got %s", path, short(want), short(got))
	}
	switch kw {
	case "array":
		x, y := want.([]any), got.([]any)
		if len(x) != len(y) {
			return fmt.Sprintf("%s: want %d elements, got %d", path, len(x), len(y))
		}
		for i := range x {
			if d := Diff(fmt.Sprintf("%s[%d]", path, i), x[i], y[i]); d != "" {
				return d
			}
		}
		return ""
	case "object":
		x, y := want.(map[string]any), got.(map[string]any)
		keys := map[string]bool{}
		for k := range x {
			keys[k] = true
		}
		for k := range y {
			keys[k] = true
		}
		ks := make([]string, 0, len(keys))
		for k := range keys {
			ks = append(ks, k)
		}
		sort.Strings(ks)
		for _, k := range ks {
			v, ok1 := x[k]
			w, ok2 := y[k]
			switch {
			case !ok1:
				if IsEmptyDeep(w) {
					continue // absent, null and the zero value of a non-pointer field are the same observation
				}
				return fmt.Sprintf("%s.%s: unexpected %s", path, k, short(w))
			case !ok2:
				if v == nil {
					continue
				}
				return fmt.Sprintf("%s.%s: missing (want %s)", path, k, short(v))
			}
			if d := Diff(path+"."+k, v, w); d != "" {
				return d
			}
		}
		return ""
	default:
		if !Equal(want, got) {
			return fmt.Sprintf("%s: want %s, got %s", path, short(want), short(got))
		}
	}
	return ""
}

func short(v any) string {
	s := Text(v)
	if len(s) > 80 {
		s = s[:80] + "…"
	}
	return s
}

// Clone deep-copies a value.
func Clone(v any) any {
	switch t := v.(type) {
	case []any:
		o := make([]any, len(t))
		for i := range t {
			o[i] = Clone(t[i])
		}
		return o
	case map[string]any:
		o := make(map[string]any, len(t))
		for k, x := range t {
			o[k] = Clone(x)
		}
		return o
	}
	return v
}

// Keys returns the sorted keys.
func Keys(m map[string]any) []string {
	k := make([]string, 0, len(m))
	for s := range m {
		k = append(k, s)
	}
	sort.Strings(k)
	return k
}

// IsEmptyDeep reports whether v is null, false, 0, "", or an array/object whose members are all empty.
func IsEmptyDeep(v any) bool {
	switch x := v.(type) {
	case nil:
		return true
	case bool:
		return !x
	case string:
		return x == ""
	case []any:
		for _, e := range x {
			if !IsEmptyDeep(e) {
				return false
			}
		}
		return true
	case map[string]any:
		for _, e := range x {
			if !IsEmptyDeep(e) {
				return false
			}
		}
		return true
	default:
		if r, ok := Rat(v); ok {
			return r.Sign() == 0
		}
	}
	return false
}

// Respell renders the same JSON value with other bytes: white space and line breaks between all tokens, object members in reverse key
// order, the first character of every string and key (and every '/') written as an escape. A decoder that looks at raw bytes instead of
// decoded values shows here.
func Respell(v any) string {
	var sb strings.Builder
	var str func(s string)
	str = func(s string) {
		sb.WriteByte('"')
		first := true
		for _, r := range s {
			switch {
			case first && r < 0x10000 && r != 0xFFFD:
				fmt.Fprintf(&sb, "\\u%04x", r)
			case r == '/':
				sb.WriteString("\\/")
			default:
				q := Text(string(r))
				sb.WriteString(q[1 : len(q)-1])
			}
			first = false
		}
		sb.WriteByte('"')
	}
	var rec func(v any, ind string)
	rec = func(v any, ind string) {
		switch x := v.(type) {
		case map[string]any:
			ks := Keys(x)
			sb.WriteString("{\n")
			for i := len(ks) - 1; i >= 0; i-- {
				sb.WriteString(ind + "  ")
				str(ks[i])
				sb.WriteString(" :\t")
				rec(x[ks[i]], ind+"  ")
				if i > 0 {
					sb.WriteString(" ,")
				}
				sb.WriteString("\n")
			}
			sb.WriteString(ind + "}")
		case []any:
			sb.WriteString("[ ")
			for i, e := range x {
				if i > 0 {
					sb.WriteString(" ,\n" + ind + "  ")
				}
				rec(e, ind+"  ")
			}
			sb.WriteString(" ]")
		case string:
			str(x)
		default:
			sb.WriteString(Text(v))
		}
	}
	rec(v, "")
	return " " + sb.String() + "\n"
}

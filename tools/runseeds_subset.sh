#!/bin/bash
# tools/runseeds_subset.sh <n> <out-file> <id>...: like runseeds_parallel.sh for the named seeds only; the table goes to <out-file> (to be merged into
# seeded/results.txt by hand: sort -V -u -t'|' -k1,1).
set -u
V="$(cd "$(dirname "$0")/.." && pwd)"
N="$1"; OUT="$2"; shift 2
IDS=( "$@" ); ROOT=/tmp/seedwt-subset; mkdir -p "$ROOT"
for ((g=0; g<N; g++)); do
  git -C /repo worktree add --detach "$ROOT/wt$g" HEAD >/dev/null 2>&1
  GRP=""; for ((i=g; i<${#IDS[@]}; i+=N)); do GRP="$GRP ${IDS[$i]}"; done
  ( [ -n "$GRP" ] && "$V/tools/runseeds.sh" "$ROOT/wt$g" $GRP > "$ROOT/res$g.txt" 2>/dev/null ) &
done
wait
cat "$ROOT"/res*.txt | sort -V > "$OUT"
for ((g=0; g<N; g++)); do git -C /repo worktree remove --force "$ROOT/wt$g" >/dev/null 2>&1; done
rm -rf "$ROOT"; cat "$OUT"

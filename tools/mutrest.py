#!/usr/bin/env python3
"""tools/mutrest.py <suite.jsonl>... -- <checks.jsonl> <out.jsonl> [workers] [file-substring]
Second pass of phase 2: for every mutant that the per-file check list of tools/mutchecks.py did not report, the REMAINING registered checks are
tried as well (so that "not reported" means "not reported by any of the twenty"). Writes updated rows (same format, `tried` extended) to <out.jsonl>;
tools/mutsummary.py takes later files as overriding earlier ones."""
import json, os, shutil, subprocess, sys, tempfile, threading, queue, time
V = os.path.dirname(os.path.dirname(os.path.abspath(__file__)))
ALL = ["C%02d" % i for i in range(1, 21)]
a = sys.argv[1:]; k = a.index('--'); suites = a[:k]; rest = a[k+1:]
checks, outp = rest[0], rest[1]
workers = int(rest[2]) if len(rest) > 2 else 1
only = rest[3] if len(rest) > 3 else ''
rows = {}
for l in open(checks):
    r = json.loads(l); rows[r['id']] = r
done = set()
if os.path.exists(outp):
    done = {json.loads(l)['id'] for l in open(outp)}
q = queue.Queue()
for r in rows.values():
    if r['caught_by'] or r['id'] in done or only not in r['file']: continue
    if r['file'] == 'main.go': continue  # only the checks that run the CLI can notice; all of them were tried
    if any(t.endswith(':2') or t.endswith(':124') for t in r['tried']): continue
    q.put(r)
print(q.qsize(), 'mutants for the second pass')
lock = threading.Lock(); out = open(outp, 'a')
def work(i):
    d = tempfile.mkdtemp(prefix='mutrest-%d-' % i); wt = os.path.join(d, 'repo')
    subprocess.run(['git', '-C', '/repo', 'worktree', 'add', '--detach', wt, 'HEAD'], stdout=subprocess.DEVNULL, stderr=subprocess.DEVNULL, check=True)
    env = dict(os.environ, VERIF_REPO=wt)
    try:
        while True:
            try: m = q.get_nowait()
            except queue.Empty: break
            p = os.path.join(wt, m['file']); src = open(p, 'rb').read()
            open(p, 'wb').write(src[:m['start']] + m['repl'].encode() + src[m['end']:])
            tried = list(m['tried']); caught = None; what = ''
            have = {t.split(':')[0] for t in tried}
            for c in [c for c in ALL if c not in have]:
                try:
                    r = subprocess.run([os.path.join(V, 'bin/check'), c, 'quick'], env=env, stdout=subprocess.PIPE, stderr=subprocess.STDOUT, timeout=900)
                    rc, o = r.returncode, r.stdout.decode('utf-8', 'replace')
                except subprocess.TimeoutExpired:
                    rc, o = 124, ''
                tried.append('%s:%d' % (c, rc))
                if rc == 1 and 'VIOLATION' in o:
                    caught = c
                    for l in o.splitlines():
                        if 'what:' in l: what = l.strip()[:300]; break
                    break
            open(p, 'wb').write(src)
            with lock:
                out.write(json.dumps(dict(m, caught_by=caught, tried=tried, what=what), ensure_ascii=False) + '\n'); out.flush()
    finally:
        subprocess.run(['git', '-C', '/repo', 'worktree', 'remove', '--force', wt], stdout=subprocess.DEVNULL, stderr=subprocess.DEVNULL)
        shutil.rmtree(d, ignore_errors=True)
ts = [threading.Thread(target=work, args=(i,)) for i in range(workers)]
[t.start() for t in ts]; [t.join() for t in ts]

#!/bin/bash
# tools/runseeds.sh <scratch-worktree> [seed ids...]: applies each /verif/seeded/<id>/patch.diff to the scratch worktree (never /repo),
# runs the repository's suite and the checks named in meta.json's caught_by (quick tier) through VERIF_REPO, prints a table.
set -u
V="$(cd "$(dirname "$0")/.." && pwd)"   # the verification directory this script lives in (normally /verif)
WT="$1"; shift
IDS="$*"; [ -z "$IDS" ] && IDS=$(ls $V/seeded)
export VERIF_REPO="$WT"
for ID in $IDS; do
  git -C "$WT" checkout -q -- . 2>/dev/null
  SUP=$(python3 -c "import json;print(json.load(open('$V/seeded/$ID/meta.json')).get('superseded_by',''))")
  if [ -n "$SUP" ]; then echo "$ID | superseded by fix $SUP (see meta.json)"; continue; fi
  git -C "$WT" apply "$V/seeded/$ID/patch.diff" 2>/dev/null || { echo "$ID | patch does not apply"; continue; }
  if $V/bin/baseline >/dev/null 2>&1; then SUITE=survives; else SUITE=KILLED-BY-SUITE; fi
  DET=$(python3 -c "
import json,re
m=json.load(open('$V/seeded/$ID/meta.json'))
s=[]
for c in m['caught_by']:
    for x in re.findall(r'C\d\d', c.split('(')[0]):
        if x not in s: s.append(x)
print(' '.join(s))")
  RES=""
  for P in $DET; do
    OUT="$($V/bin/check "$P" quick 2>&1)"; RC=$?
    N=$(printf '%s\n' "$OUT" | grep -a -c '^VIOLATION')
    if [ $RC -eq 1 ] && [ "$N" -gt 0 ]; then RES="$RES $P:CAUGHT($N)"; elif [ $RC -eq 0 ]; then RES="$RES $P:missed"; else RES="$RES $P:rc=$RC"; fi
  done
  echo "$ID | suite: $SUITE |$RES"
  git -C "$WT" checkout -q -- .
done

#!/usr/bin/env python3
"""tools/mutsuite.py <mutants.jsonl> <out.jsonl> [workers]
Phase 1 of the automatic mutation run (DESIGN.md §12.3): applies every syntactic mutant listed by harness/cmd/mutgen to a
throw-away copy of /repo (never /repo itself), builds it and runs the repository's own suite; writes one line per mutant with
suite = nobuild | killed | survives. Copies live under $TMPDIR/mutwork-* and are removed at the end."""
import json, os, shutil, subprocess, sys, tempfile, threading, queue
muts = [json.loads(l) for l in open(sys.argv[1])]
outp = sys.argv[2]
workers = int(sys.argv[3]) if len(sys.argv) > 3 else 6
done = set()
if os.path.exists(outp):
    for l in open(outp):
        done.add(json.loads(l)['id'])
env = dict(os.environ, GOPROXY='off', GOSUMDB='off', GOTOOLCHAIN='local')
env.pop('GOFLAGS', None)
q = queue.Queue()
for m in muts:
    if m['id'] not in done:
        q.put(m)
lock = threading.Lock()
out = open(outp, 'a')
def sh(cmd, cwd, to):
    try:
        p = subprocess.run(cmd, cwd=cwd, env=env, shell=True, stdout=subprocess.PIPE, stderr=subprocess.STDOUT, timeout=to)
        return p.returncode, p.stdout.decode('utf-8', 'replace')
    except subprocess.TimeoutExpired:
        return 124, 'timeout'
def work(i):
    d = tempfile.mkdtemp(prefix='mutwork-%d-' % i)
    wt = os.path.join(d, 'repo')
    subprocess.run(['git', '-C', '/repo', 'worktree', 'add', '--detach', wt, 'HEAD'], stdout=subprocess.DEVNULL, stderr=subprocess.DEVNULL, check=True)
    try:
        while True:
            try:
                m = q.get_nowait()
            except queue.Empty:
                break
            p = os.path.join(wt, m['file'])
            src = open(p, 'rb').read()
            open(p, 'wb').write(src[:m['start']] + m['repl'].encode() + src[m['end']:])
            rc, o = sh('go build ./... && go vet ./... >/dev/null 2>&1; go build ./...', wt, 300)
            if rc != 0:
                res = 'nobuild'
            else:
                rc1, o1 = sh('go test -vet=off -count=1 -timeout 120s ./...', wt, 200)
                if rc1 != 0:
                    res = 'killed'
                else:
                    rc2, o2 = sh('go test -vet=off -count=1 -timeout 120s ./...', os.path.join(wt, 'tests'), 200)
                    res = 'killed' if rc2 != 0 else 'survives'
            open(p, 'wb').write(src)
            m2 = dict(m, suite=res)
            with lock:
                out.write(json.dumps(m2, ensure_ascii=False) + '\n'); out.flush()
    finally:
        subprocess.run(['git', '-C', '/repo', 'worktree', 'remove', '--force', wt], stdout=subprocess.DEVNULL, stderr=subprocess.DEVNULL)
        shutil.rmtree(d, ignore_errors=True)
ts = [threading.Thread(target=work, args=(i,)) for i in range(workers)]
[t.start() for t in ts]; [t.join() for t in ts]

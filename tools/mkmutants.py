#!/usr/bin/env python3
# Regenerates /verif/mutants/*.diff from a scratch worktree of /repo (argument: worktree path). Self-validation mutants (DESIGN §10/§12).
import subprocess, os, json, sys
R = sys.argv[1]
M = []
HELP = '\nfunc verifMutB2I(b bool) int {\n\tif b {\n\t\treturn 1\n\t}\n\n\treturn 0\n}\n'
def mut(id, file, old, new, detect, tier='quick', note='', helper=False):
    p = os.path.join(R, file); s = open(p).read()
    if s.count(old) < 1:
        print('SKIP', id, 'pattern not found'); return
    s = s.replace(old, new, 1)
    if helper: s += HELP
    open(p, 'w').write(s)
    if subprocess.call(['go', 'build', './...'], cwd=R, env=dict(os.environ, GOFLAGS='', GOPROXY='off', GOTOOLCHAIN='local')) != 0:
        print('DOES NOT BUILD', id)
    d = subprocess.check_output(['git', '-C', R, 'diff']).decode()
    subprocess.check_call(['git', '-C', R, 'checkout', '--', '.'])
    open('/verif/mutants/%s.diff' % id, 'w').write(d)
    M.append({"id": id, "file": file, "change": note, "expected_detectors": detect, "tier": tier})
G = 'pkg/generator/'
mut('M01', 'pkg/mathutils/utils.go', 'if minimum == nil || v >= *minimum {', 'if minimum == nil || v > *minimum {', ['C05'], note='revert of fix 5f4ed63 (tie: inclusive wins)')
mut('M03', G+'utils.go', '\tsort.Strings(names)\n\n\treturn names\n}\n\nfunc sortDefinitionsByName', '\tif len(names) > 8 {\n\t\tsort.Strings(names)\n\t}\n\n\treturn names\n}\n\nfunc sortDefinitionsByName', ['C12'], note='sortedKeys sorts only lists longer than 8')
mut('M05', G+'schema_generator.go', '\t\tif isRequired {\n\t\t\tstructType.RequiredJSONFields', '\t\tif isRequired && !structField.Type.IsNillable() {\n\t\t\tstructType.RequiredJSONFields', ['C04'], note='presence check skipped when the field type is nillable (arrays, maps, nullable)')
mut('M06', G+'validator.go', 'if %slen(%s%s) > %d {`, checkPointer, pointerPrefix, value, v.maxLength)', 'if %slen(%s%s) > %d {`, checkPointer, pointerPrefix, value, v.maxLength-verifMutB2I(v.isNillable && v.pattern != ""))', ['C06'], note='maxLength off by one only for nullable + pattern', helper=True)
mut('M07', 'main.go', '\t\t\t\tif err = generator.DoFile(fileName); err != nil {\n\t\t\t\t\tabortWithErr(err)\n\t\t\t\t}', '\t\t\t\tif err = generator.DoFile(fileName); err != nil {\n\t\t\t\t\tlogf("Warning: %s", err)\n\t\t\t\t}', ['C18'], note='DoFile error logged as a warning instead of aborting')
mut('M08', 'main.go', '\tos.Exit(1)', '\tos.Exit(0)', ['C18'], note='abort exits with status 0')
mut('M12', G+'validator.go', '\tout.Printlnf("if len(errs) == %d {", v.elemCount)', '\tout.Printlnf("if len(errs) == %d {", v.elemCount+verifMutB2I(v.elemCount > 2))', ['C11'], tier='thorough', note='anyOf fails only if more errors than branches, for 3+ branches', helper=True)
mut('M13', G+'validator.go', 'out.Printlnf(`if v, ok := %s["%s"]; !ok || v == nil {`, varNameRawMap, v.jsonName)', 'out.Printlnf(`if _, ok := %s["%s"]; !ok {`, varNameRawMap, v.jsonName)', ['C09'], note='default applied only when the key is missing, not on null')
mut('M14', 'pkg/schemas/loaders.go', '\treturn filepath.Join(filepath.Dir(parentURI), fileName)\n}', '\treturn filepath.Base(filepath.Join(filepath.Dir(parentURI), fileName))\n}', ['C20', 'C10'], note='cache keyed by the base name')
mut('M16', 'pkg/schemas/model.go', "\tif len(value) > 0 && value[0] == '[' {", "\tif len(value) > 10 && value[0] == '[' {", ['C13'], note='type list detection needs a long value: short one-element lists fail')
mut('M17', 'pkg/codegen/utils.go', '\tif nMin != nil && *nMin >= 0 {\n\t\treturn adjustForUnsignedBounds', '\tif nMin != nil && *nMin > 0 {\n\t\treturn adjustForUnsignedBounds', ['C15'], note='unsigned only when min > 0')
mut('M18', 'pkg/codegen/utils.go', '\tcase minRounded < float64(math.MinInt8) || maxRounded > float64(math.MaxInt8):', '\tcase minRounded < float64(math.MinInt8) || maxRounded >= float64(math.MaxInt8):', ['C15'], note='>= at the int8 limit')
mut('M19', G+'schema_generator.go', '\tif prim, ok := enumType.(codegen.PrimitiveType); ok && prim.Type == "string" {', '\tif prim, ok := enumType.(codegen.PrimitiveType); ok && prim.Type == "string" && !g.config.OnlyModels {', ['C16'], note='no enum constants under --only-models')
mut('M20', G+'schema_generator.go', '\t\t\ttags += fmt.Sprintf(`%s:"%s,omitempty" `, tag, name)', '\t\t\tif tag != "json" && len(g.config.Tags) != 3 {\n\t\t\t\ttags += fmt.Sprintf(`%s:"%s" `, tag, name)\n\n\t\t\t\tcontinue\n\t\t\t}\n\n\t\t\ttags += fmt.Sprintf(`%s:"%s,omitempty" `, tag, name)', ['C16'], note='omitempty dropped for non-json tags when --tags is not the default')
mut('M21', G+'yaml_formatter.go', '\t\tout.Printlnf("if reflect.DeepEqual(%s, expected) { ok = true; break }", varName)', '\t\tout.Printlnf("if reflect.DeepEqual(%s, expected) || len(%s) > 3 { ok = true; break }", varName, valueConstant.Name)', ['C17'], tier='thorough', note='YAML enum check always succeeds for enums with more than 3 values')
mut('M22', G+'json_formatter.go', '\t\tfor _, v := range afterValidators {\n\t\t\tv.generate(out, "json")\n\t\t}', '\t\tif len(afterValidators) > 2 {\n\t\t\tout.Printlnf("*j = %s(%s)", declType.Name, varNamePlainStruct)\n\t\t}\n\n\t\tfor _, v := range afterValidators {\n\t\t\tv.generate(out, "json")\n\t\t}', ['C19'], note='receiver assigned before the after-validators when there are more than two of them')
mut('M24', G+'schema_generator.go', '\tif imp == nil {\n\t\tg.output.file.Package.AddImport(sg.output', '\tif imp == nil && len(g.output.file.Package.Imports) == 0 {\n\t\tg.output.file.Package.AddImport(sg.output', ['C20'], note='cross-package import added only when the file has no imports yet')
mut('M25', G+'validator.go', '\tif v.minItems != 0 {\n\t\tout.Printlnf(`if %s != nil && len(%s) < %d {`, value, value, v.minItems)', '\tif v.minItems != 0 {\n\t\tout.Printlnf(`if %s != nil && len(%s) < %d {`, value, value, v.minItems-verifMutB2I(v.arrayDepth > 2))', ['C07'], tier='thorough', note='minItems decremented for array depth > 2', helper=True)
mut('M26', G+'validator.go', '\t\tcomp += "="', '\t\tif !(v.isNillable && v.multipleOf != nil) {\n\t\t\tcomp += "="\n\t\t}', ['C05'], note='exclusive comparison loses = when nullable and multipleOf is set')
mut('M29', G+'generate.go', '\t\tif o.file.FileName == outputName && o.file.Package.QualifiedName == packageName {\n\t\t\treturn o, nil\n\t\t}', '\t\tif o.file.FileName == outputName && o.file.Package.QualifiedName == packageName {\n\t\t\tif len(g.outputs) > 2 {\n\t\t\t\tcontinue\n\t\t\t}\n\n\t\t\treturn o, nil\n\t\t}', ['C20'], note='an already started output file is not re-used once more than two outputs exist')
mut('M32', G+'schema_generator.go', '\t\t\tif v.desc().hasError {\n\t\t\t\tg.output.file.Package.AddImport("fmt", "")', '\t\t\tif v.desc().hasError && len(validators) < 6 {\n\t\t\t\tg.output.file.Package.AddImport("fmt", "")', ['C01'], tier='thorough', note='fmt import forgotten for types with six or more validators')
mut('M33', 'pkg/codegen/emitter.go', '\t\tlimit := e.maxLineLength - e.indent', '\t\tlimit := e.maxLineLength - e.indent*40', ['C01', 'C16'], note='comment wrap width shrinks with indentation (affects wrapping of nested comments only) - benign formatting change, may survive')
mut('M34', G+'schema_generator.go', '\t\tcase schemas.TypeNameNumber:\n\t\t\t\tdefaultValue = map[string]float64{}', '\t\tcase schemas.TypeNameNumber:\n\t\t\t\tdefaultValue = map[string]int{}', ['C01', 'C02'], note='number additionalProperties get an int default map literal')
json.dump(M, open('/verif/mutants/index.json', 'w'), indent=1)
print(len(M), 'mutants written')

#!/bin/bash
# tools/tryseedwt.sh <scratch-worktree> <patch.diff> <tier> <property>...  : like tryseed.sh, but applies the change to a scratch git worktree of
# /repo (never /repo itself) and runs the suite and the named checks through VERIF_REPO, so /verif/evidence is not touched.
set -u
V="$(cd "$(dirname "$0")/.." && pwd)"   # the verification directory this script lives in (normally /verif)
WT="$1"; PATCH="$(realpath "$2")"; TIER="$3"; shift 3
export VERIF_REPO="$WT"
git -C "$WT" checkout -q -- . ; git -C "$WT" clean -fdq -e seed -e TASK.md -e PROPERTY.json -e BYPRODUCTS.md >/dev/null 2>&1
git -C "$WT" apply "$PATCH" || { echo "patch does not apply"; exit 2; }
trap 'git -C "$WT" checkout -q -- .' EXIT
if $V/bin/baseline > "$WT.base.$$" 2>&1; then echo "suite: PASS (change survives the existing tests)"; else echo "suite: FAIL"; tail -5 "$WT.base.$$"; fi
rm -f "$WT.base.$$"
for P in "$@"; do
  OUT="$($V/bin/check "$P" "$TIER" 2>&1)"; RC=$?
  N=$(printf '%s\n' "$OUT" | grep -a -c '^VIOLATION')
  if [ $RC -eq 1 ] && [ "$N" -gt 0 ]; then echo "$P $TIER: CAUGHT ($N violation signatures) e.g. $(printf '%s\n' "$OUT" | grep -a -m1 'what:' | cut -c1-260)";
  elif [ $RC -eq 0 ]; then echo "$P $TIER: MISSED"; else echo "$P $TIER: rc=$RC $(printf '%s\n' "$OUT" | tail -2 | cut -c1-200)"; fi
done

#!/bin/bash
# tools/runseeds_parallel.sh <n> [scratch-root]: the seed regression (tools/runseeds.sh) split over n scratch worktrees of /repo (created under
# <scratch-root>, default /tmp/seedwt, and removed afterwards); the merged table is written to seeded/results.txt.
set -u
V="$(cd "$(dirname "$0")/.." && pwd)"
N="${1:-4}"; ROOT="${2:-/tmp/seedwt}"
mkdir -p "$ROOT"
IDS=( $(ls "$V/seeded" | grep -E '^C[0-9]{2}-[0-9]+$' | sort -V) )
for ((g=0; g<N; g++)); do
  git -C /repo worktree add --detach "$ROOT/wt$g" HEAD >/dev/null 2>&1
  GRP=""
  for ((i=g; i<${#IDS[@]}; i+=N)); do GRP="$GRP ${IDS[$i]}"; done
  ( "$V/tools/runseeds.sh" "$ROOT/wt$g" $GRP > "$ROOT/res$g.txt" 2>/dev/null ) &
done
wait
cat "$ROOT"/res*.txt | sort -V > "$V/seeded/results.txt"
for ((g=0; g<N; g++)); do git -C /repo worktree remove --force "$ROOT/wt$g" >/dev/null 2>&1; done
rm -rf "$ROOT"
wc -l "$V/seeded/results.txt"; grep -v "CAUGHT" "$V/seeded/results.txt"

#!/bin/bash
# tools/confirmseed.sh <worktree> <n> : re-confirms one sub-agent seed in its scratch worktree: demo passes on the clean checkout, the patch
# applies with git apply, the repository's suite passes with it, the demo fails with it. Prints one line; leaves the worktree clean.
WT="$1"; N="$2"; S="$WT/seed/$N"
export GOPROXY=off GOSUMDB=off GOTOOLCHAIN=local; unset GOFLAGS
git -C "$WT" checkout -q -- . 
( cd "$WT" && timeout 600 bash "$S/demo/run.sh" ) > "$S/confirm.clean.log" 2>&1; C=$?
git -C "$WT" checkout -q -- .
git -C "$WT" apply "$S/patch.diff" 2> "$S/confirm.apply.log" || { echo "$WT seed $N: PATCH DOES NOT APPLY"; exit 1; }
( cd "$WT" && go build ./... && go test -vet=off -count=1 ./... && cd tests && go test -vet=off -count=1 ./... ) > "$S/confirm.suite.log" 2>&1; SU=$?
( cd "$WT" && timeout 600 bash "$S/demo/run.sh" ) > "$S/confirm.patched.log" 2>&1; P=$?
git -C "$WT" checkout -q -- . ; git -C "$WT" clean -fdq -e seed -e TASK.md -e PROPERTY.json -e BYPRODUCTS.md >/dev/null 2>&1
OK=no; [ $C -eq 0 ] && [ $SU -eq 0 ] && [ $P -ne 0 ] && OK=yes
echo "$WT seed $N: demo-clean=$C suite-with-patch=$SU demo-patched=$P confirmed=$OK"

#!/usr/bin/env python3
"""tools/mutchecks.py <suite.jsonl> <out.jsonl> [workers] [tier]
Phase 2 of the automatic mutation run (DESIGN.md §12.3): every mutant that SURVIVES the repository's suite is applied to a
scratch worktree of /repo (never /repo itself) and the registered checks are run against it through VERIF_REPO, most likely
detector first, stopping at the first check that reports a VIOLATION. One line per mutant: caught_by = <Cxx> | null (missed by
every check tried), with the list of checks tried. Evidence of such runs goes to the scratch directory, not to /verif/evidence."""
import json, os, shutil, subprocess, sys, tempfile, threading, queue, time
V = os.path.dirname(os.path.dirname(os.path.abspath(__file__)))
ALL = "C01 C09 C08 C06 C04 C07 C03 C05 C11 C02 C14 C13 C12 C10 C19 C17 C15 C18 C20 C16".split()
def order(f):
    # per file: the checks whose programs execute that code (a mutant the others cannot notice is not tried against them)
    if f == 'main.go': return "C18 C16 C20 C12".split()
    if 'x/text' in f: return "C14 C01 C16 C13 C12 C20".split()
    if 'mathutils' in f: return "C05 C15 C02 C17 C01".split()
    if f.startswith('pkg/types'): return "C02 C17 C19 C03".split()
    if f.startswith('pkg/yamlutils'): return "C13 C10 C18 C12 C20".split()
    if f.endswith('validator.go'): return "C01 C06 C05 C07 C09 C04 C11 C17 C19".split()
    if f.endswith('json_formatter.go'): return "C01 C04 C09 C19 C02 C03".split()
    if f.endswith('yaml_formatter.go'): return "C17 C01 C19".split()
    if f == 'pkg/codegen/utils.go': return "C15 C03 C02 C01 C05 C08".split()
    if f.startswith('pkg/codegen'): return "C01 C16 C12 C13 C02 C08 C09".split()
    if f == 'pkg/schemas/model.go': return "C13 C18 C11 C04 C03 C01 C10 C02".split()
    if f.startswith('pkg/schemas'): return "C13 C18 C10 C20 C12".split()
    if f.startswith('pkg/cmputil'): return "C14 C09 C10 C06".split()
    if f.endswith('schema_generator.go'): return "C01 C09 C08 C04 C03 C02 C11 C14 C10 C18 C16".split()
    return "C20 C01 C10 C14 C12 C16 C18".split()
muts = [m for m in map(json.loads, open(sys.argv[1])) if m['suite'] == 'survives']
outp = sys.argv[2]
workers = int(sys.argv[3]) if len(sys.argv) > 3 else 2
tier = sys.argv[4] if len(sys.argv) > 4 else 'quick'
done = set()
if os.path.exists(outp):
    done = {json.loads(l)['id'] for l in open(outp)}
q = queue.Queue()
for m in muts:
    if m['id'] not in done: q.put(m)
lock = threading.Lock(); out = open(outp, 'a')
def work(i):
    d = tempfile.mkdtemp(prefix='mutchk-%d-' % i); wt = os.path.join(d, 'repo')
    subprocess.run(['git', '-C', '/repo', 'worktree', 'add', '--detach', wt, 'HEAD'], stdout=subprocess.DEVNULL, stderr=subprocess.DEVNULL, check=True)
    env = dict(os.environ, VERIF_REPO=wt)
    try:
        while True:
            try: m = q.get_nowait()
            except queue.Empty: break
            p = os.path.join(wt, m['file']); src = open(p, 'rb').read()
            open(p, 'wb').write(src[:m['start']] + m['repl'].encode() + src[m['end']:])
            tried = []; caught = None; what = ''
            t0 = time.time()
            for c in order(m['file']):
                try:
                    r = subprocess.run([os.path.join(V, 'bin/check'), c, tier], env=env, stdout=subprocess.PIPE, stderr=subprocess.STDOUT, timeout=900)
                    rc, o = r.returncode, r.stdout.decode('utf-8', 'replace')
                except subprocess.TimeoutExpired:
                    rc, o = 124, ''
                tried.append('%s:%d' % (c, rc))
                if rc == 1 and 'VIOLATION' in o:
                    caught = c
                    for l in o.splitlines():
                        if 'what:' in l: what = l.strip()[:300]; break
                    break
            open(p, 'wb').write(src)
            with lock:
                out.write(json.dumps(dict(m, caught_by=caught, tried=tried, what=what, secs=round(time.time() - t0)), ensure_ascii=False) + '\n'); out.flush()
    finally:
        subprocess.run(['git', '-C', '/repo', 'worktree', 'remove', '--force', wt], stdout=subprocess.DEVNULL, stderr=subprocess.DEVNULL)
        shutil.rmtree(d, ignore_errors=True)
ts = [threading.Thread(target=work, args=(i,)) for i in range(workers)]
[t.start() for t in ts]; [t.join() for t in ts]

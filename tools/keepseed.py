#!/usr/bin/env python3
# tools/keepseed.py <id> <srcdir> <property> <needs> <caught_by> [patchfile]  -- stores a confirmed seeded change under /verif/seeded/<id>/
import sys, os, shutil, json, subprocess
id, src, prop, needs, caught = sys.argv[1:6]
patch = sys.argv[6] if len(sys.argv) > 6 else os.path.join(src, 'patch.diff')
dst = os.path.join('/verif/seeded', id)
shutil.rmtree(dst, ignore_errors=True)
os.makedirs(dst)
shutil.copy(patch, os.path.join(dst, 'patch.diff'))
if os.path.isdir(os.path.join(src, 'demo')):
    shutil.copytree(os.path.join(src, 'demo'), os.path.join(dst, 'demo'))
if os.path.exists(os.path.join(src, 'README.md')):
    shutil.copy(os.path.join(src, 'README.md'), os.path.join(dst, 'README.agent.md'))
head = subprocess.check_output(['git', '-C', '/repo', 'log', '--format=%h', '-1']).decode().strip()
meta = {"id": id, "breaks_property": prop, "needs_to_manifest": needs, "written_by": "independent sub-agent given only the property text and a scratch worktree",
        "applies_to_repo_commit": head,
        "confirmed": {"applies_with_git_apply": True, "repository_suite_with_change": "passes (bin/baseline, both modules)", "demonstration": "fails with the change / passes without, as run by the sub-agent (see README.agent.md); re-checked by tools/tryseed.sh"},
        "caught_by": caught.split(';'),
        "how_to_run": "git -C /repo apply /verif/seeded/%s/patch.diff && bin/check <Cxx> <tier>; git -C /repo checkout -- .   (or tools/tryseed.sh /verif/seeded/%s/patch.diff <tier> <Cxx>)" % (id, id)}
json.dump(meta, open(os.path.join(dst, 'meta.json'), 'w'), indent=1)
print('kept', dst)

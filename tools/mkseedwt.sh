#!/bin/bash
# tools/mkseedwt.sh <Cxx> <round> [focus text]: makes a scratch git worktree of /repo's HEAD under /tmp/wt/<Cxx>r<round> for an independent
# sub-agent. The worktree gets PROPERTY.json (the one property, text only) and TASK.md (what to deliver, in which layout) - nothing from /verif.
set -eu
V="$(cd "$(dirname "$0")/.." && pwd)"
P="$1"; R="$2"; FOCUS="${3:-}"
WT="/tmp/wt/${P}r${R}"
mkdir -p /tmp/wt
git -C /repo worktree remove --force "$WT" 2>/dev/null || true
rm -rf "$WT"
git -C /repo worktree add --detach "$WT" HEAD >/dev/null 2>&1
python3 - "$V/properties.jsonl" "$P" > "$WT/PROPERTY.json" <<'EOF'
import sys, json
for l in open(sys.argv[1]):
    p = json.loads(l)
    if p['id'] == sys.argv[2]:
        json.dump({k: p[k] for k in ('id', 'title', 'statement', 'quantifier') if k in p}, sys.stdout, indent=1)
EOF
cat > "$WT/TASK.md" <<EOF
# Task

This directory is a scratch git worktree of github.com/atombender/go-jsonschema (a CLI code generator: JSON Schema -> Go structs with
generated UnmarshalJSON / UnmarshalYAML methods that enforce the schema). Work only inside this directory. The sandbox has no network.
Environment for every go command: \`export GOPROXY=off GOSUMDB=off GOTOOLCHAIN=local; unset GOFLAGS\`.
The existing test suite is: \`go build ./... && go test -vet=off -count=1 ./... && (cd tests && go test -vet=off -count=1 ./...)\` (about 10 s).

PROPERTY.json states one semantic property the tool is supposed to have.

Deliver THREE different changes to the non-test Go sources (and templates) of this repository, each of which
  1. breaks the property in PROPERTY.json (for some input / option combination / sequence of files the property quantifies over),
  2. still compiles, and the existing, unedited test suite (both modules, command above) still passes with it,
  3. needs something specific to manifest - an unusual but legitimate input, a particular combination of two or three schema features or
     options, a multi-file run, a particular order, a second use of a shared object, two sites that each look fine alone - NOT something
     that ordinary use of the tool would expose at once,
  4. looks like something a maintainer could plausibly write (a refactoring slip, an optimisation, a "simplification", an off-by-one, a
     cache, a changed default), not sabotage with a magic constant or a check for a special name.
The three changes must use three different mechanisms in different functions; at least one of them should be outside
pkg/generator/validator.go, and at least one should involve state that survives from one schema / type / file to the next (a cache, a
shared pointer, a name scope, an output buffer) or two cooperating sites. ${FOCUS}

Layout (create it): for n = 1, 2, 3
  seed/<n>/patch.diff   - \`git diff\` of the change against the clean checkout (only non-test sources; must apply with \`git apply\`)
  seed/<n>/demo/run.sh  - a script, run from the worktree root with \`bash seed/<n>/demo/run.sh\`, that exits 0 on the clean checkout and
                          non-zero with the patch applied, by building the tool from this worktree (\`go build -o <tmp>/gojsonschema .\`),
                          generating code from schema files kept in seed/<n>/demo/, and compiling / running a small Go program (kept there too)
                          against the generated code. A demo module outside the repo module needs
                          \`replace github.com/atombender/go-jsonschema => <worktree>\` and GOFLAGS=-mod=mod; dependencies available offline:
                          github.com/go-viper/mapstructure/v2 v2.1.0, gopkg.in/yaml.v3 v3.0.1, github.com/goccy/go-yaml (version in go.mod).
                          Simplest: put the demo program under a new directory inside the worktree (e.g. seed/<n>/demo/prog/) so that it
                          belongs to the repository module. The script must clean up its temporary files.
  seed/<n>/README.md    - what the change is, why the suite does not notice it, exactly what is needed for it to manifest.
Leave the worktree itself clean at the end (\`git checkout -- .\`): the patches live only in seed/<n>/patch.diff.
Verify each claim yourself before you finish: demo passes clean, patch applies, suite passes with patch, demo fails with patch.

Also write BYPRODUCTS.md: while exploring you will meet inputs on which the UNCHANGED tool already violates the property. List each with
the exact schema, options and document, and what happens (these are as valuable as the three changes).

Final answer: a short list - per seed one line (file, mechanism, what it needs to manifest) and the number of by-products.
EOF
echo "$WT"

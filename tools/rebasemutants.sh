#!/bin/bash
# tools/rebasemutants.sh <scratch-worktree>: like rebaseseeds.sh, for /verif/mutants/*.diff.
set -u
V="$(cd "$(dirname "$0")/.." && pwd)"
WT="$1"
for D in $V/mutants/*.diff; do
  ID=$(basename "$D" .diff)
  git -C "$WT" reset -q --hard HEAD
  if git -C "$WT" apply --check "$D" 2>/dev/null; then continue; fi
  if git -C "$WT" apply --3way "$D" >/dev/null 2>&1 && [ -z "$(git -C "$WT" diff --name-only --diff-filter=U)" ]; then
    git -C "$WT" diff HEAD > "$D"
    echo "$ID: re-created against $(git -C "$WT" log --format=%h -1)"
  else
    echo "$ID: DOES NOT APPLY (conflict)"
  fi
  git -C "$WT" reset -q --hard HEAD
done

#!/bin/bash
# tools/tryseed.sh <patch.diff> <tier> <property>...  : applies a seeded change to /repo, runs the repository's own suite and the named
# checks, and restores /repo. Prints one line per check: CAUGHT / MISSED.
set -u
V="$(cd "$(dirname "$0")/.." && pwd)"   # the verification directory this script lives in (normally /verif)
PATCH="$(realpath "$1")"; TIER="$2"; shift 2
cd /repo || exit 2
if [ -n "$(git status --porcelain -- . ':!go.work.sum')" ]; then echo "/repo is not clean"; exit 2; fi
git apply "$PATCH" || { echo "patch does not apply"; exit 2; }
trap 'git -C /repo checkout -- . ' EXIT
if $V/bin/baseline > /tmp/tryseed.base.$$ 2>&1; then echo "suite: PASS (change survives the existing tests)"; else echo "suite: FAIL"; tail -5 /tmp/tryseed.base.$$; fi
rm -f /tmp/tryseed.base.$$
for P in "$@"; do
  OUT="$($V/bin/check "$P" "$TIER" 2>&1)"; RC=$?
  N=$(printf '%s\n' "$OUT" | grep -c '^VIOLATION')
  if [ $RC -eq 1 ] && [ "$N" -gt 0 ]; then echo "$P $TIER: CAUGHT ($N violation signatures) e.g. $(printf '%s\n' "$OUT" | grep -a -m1 'what:' | cut -c1-260)";
  elif [ $RC -eq 0 ]; then echo "$P $TIER: MISSED"; else echo "$P $TIER: rc=$RC $(printf '%s\n' "$OUT" | tail -2 | cut -c1-200)"; fi
done

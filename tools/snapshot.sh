#!/bin/bash
# tools/snapshot.sh <dir>: copies the verification directory (without .git, evidence, replays) to <dir>, so that a long regression
# (tools/runseeds.sh, tools/runmutants.sh on a scratch worktree) can run from a frozen copy while the sources in /verif are edited.
# Remove <dir> when the run is over.
set -u
V="$(cd "$(dirname "$0")/.." && pwd)"
D="$1"; rm -rf "$D"; mkdir -p "$D"
rsync -a --exclude .git --exclude evidence --exclude replays "$V/" "$D/"
echo "snapshot of $V in $D"

#!/bin/bash
# tools/runall.sh <quick|thorough> : every registered check on /repo as it is; prints one line per check and a verdict.
V="$(cd "$(dirname "$0")/.." && pwd)"
TIER="${1:-quick}"; BAD=0
for c in C01 C02 C03 C04 C05 C06 C07 C08 C09 C10 C11 C12 C13 C14 C15 C16 C17 C18 C19 C20; do
  OUT="$($V/bin/check $c $TIER 2>&1)"; RC=$?
  LINE="$(printf '%s\n' "$OUT" | grep -a "^$c $TIER:" | tail -1)"
  echo "rc=$RC $LINE"
  if [ $RC -ne 0 ]; then BAD=1; printf '%s\n' "$OUT" | grep -a "what:" | head -3 | cut -c1-300; fi
done
[ $BAD -eq 0 ] && echo "ALL PASS ($TIER)" || echo "SOME CHECK ALARMS ($TIER)"

#!/bin/bash
# tools/processround.sh <Cxx> <round> [extra checks...]: for the scratch worktree /tmp/wt/<Cxx>r<round> of a finished sub-agent: re-confirms each
# delivered seed (tools/confirmseed.sh) and runs the owning quick check (and any extra checks named) against it through VERIF_REPO.
# One line per seed and check in /tmp/wt/<Cxx>r<round>.result ; the full output of each check in <worktree>/seed/<n>/check.<Cxx>.log
set -u
V="$(cd "$(dirname "$0")/.." && pwd)"
P="$1"; R="$2"; shift 2
WT="/tmp/wt/${P}r${R}"; RES="$WT.result"; : > "$RES"
for S in "$WT"/seed/*/; do
  N="$(basename "$S")"
  [ -f "$S/patch.diff" ] || continue
  "$V/tools/confirmseed.sh" "$WT" "$N" >> "$RES" 2>&1
  git -C "$WT" checkout -q -- . ; git -C "$WT" apply "$S/patch.diff" 2>/dev/null || { echo "$P seed $N: patch does not apply" >> "$RES"; continue; }
  for C in "$P" "$@"; do
    OUT="$(VERIF_REPO="$WT" "$V/bin/check" "$C" quick 2>&1)"; RC=$?
    printf '%s\n' "$OUT" > "$S/check.$C.log"
    NV=$(printf '%s\n' "$OUT" | grep -a -c '^VIOLATION')
    if [ $RC -eq 1 ] && [ "$NV" -gt 0 ]; then echo "$P seed $N: $C quick CAUGHT($NV) $(printf '%s\n' "$OUT" | grep -a -m1 'what:' | cut -c1-220)" >> "$RES"
    elif [ $RC -eq 0 ]; then echo "$P seed $N: $C quick MISSED" >> "$RES"
    else echo "$P seed $N: $C quick rc=$RC $(printf '%s\n' "$OUT" | tail -2 | tr '\n' ' ' | cut -c1-200)" >> "$RES"; fi
  done
  git -C "$WT" checkout -q -- .
done
cat "$RES"

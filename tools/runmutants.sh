#!/bin/bash
# tools/runmutants.sh <scratch-worktree> [ids...]: applies each /verif/mutants/<id>.diff to the scratch worktree (never /repo), runs the
# repository's suite and the expected detectors through VERIF_REPO, and prints a result table.
set -u
V="$(cd "$(dirname "$0")/.." && pwd)"   # the verification directory this script lives in (normally /verif)
WT="$1"; shift
IDS="$*"
[ -z "$IDS" ] && IDS=$(python3 -c "import json;print(' '.join(m['id'] for m in json.load(open('$V/mutants/index.json'))))")
export VERIF_REPO="$WT"
for ID in $IDS; do
  git -C "$WT" checkout -- . 2>/dev/null
  git -C "$WT" apply "$V/mutants/$ID.diff" || { echo "$ID | patch does not apply"; continue; }
  if $V/bin/baseline >/dev/null 2>&1; then SUITE=survives; else SUITE=killed-by-suite; fi
  read -r DET TIER <<< "$(python3 -c "import json;m=[x for x in json.load(open('$V/mutants/index.json')) if x['id']=='$ID'][0];print(','.join(m['expected_detectors']),m['tier'])")"
  RES=""
  for P in ${DET//,/ }; do
    OUT="$($V/bin/check "$P" "$TIER" 2>&1)"; RC=$?
    N=$(printf '%s\n' "$OUT" | grep -c '^VIOLATION')
    if [ $RC -eq 1 ] && [ "$N" -gt 0 ]; then RES="$RES $P:$TIER:CAUGHT($N)"; elif [ $RC -eq 0 ]; then RES="$RES $P:$TIER:missed"; else RES="$RES $P:$TIER:rc=$RC"; fi
  done
  echo "$ID | suite: $SUITE |$RES"
  git -C "$WT" checkout -- .
done

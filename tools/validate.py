#!/usr/bin/env python3
# validates MANIFEST.json and every evidence file against the schemas in /root/.vp (run with python3-vt, which has jsonschema)
import json, glob, sys
import jsonschema
m = json.load(open('/verif/MANIFEST.json')); s = json.load(open('/root/.vp/MANIFEST.schema.json'))
jsonschema.validate(m, s)
es = json.load(open('/root/.vp/EVIDENCE.schema.json'))
bad = 0
for c in m['checks']:
    f = c['evidence_file']
    try:
        e = json.load(open(f))
        jsonschema.validate(e, es)
        if e['level'] != c['level_claimed']['category']:
            print('LEVEL MISMATCH', f, e['level'], c['level_claimed']['category']); bad += 1
    except Exception as ex:
        print('INVALID', f, str(ex)[:200]); bad += 1
print('manifest valid;', len(m['checks']), 'checks;', bad, 'evidence problems')
sys.exit(1 if bad else 0)

#!/usr/bin/env python3
"""tools/mutsummary.py <suite.jsonl>... -- <checks.jsonl> : summarises the automatic mutation run into /verif/mutants/auto-results.json
(per file: mutants, not built, killed by the suite, surviving, reported by a check, not reported, not yet run) and lists the
unreported ones in /verif/mutants/auto-missed.jsonl for the hand classification in auto-missed.md."""
import json, sys, collections, os
V=os.path.dirname(os.path.dirname(os.path.abspath(__file__)))
a=sys.argv[1:]; k=a.index('--'); suites, checks = a[:k], a[k+1:]
ms={}
for f in suites:
    for l in open(f):
        m=json.loads(l); ms[m['id']]=m
# an id prefix B supersedes the A entries of the same file (the file changed through a fix: commit in between)
bfiles={m['file'] for m in ms.values() if m['id'].startswith('B')}
ms={i:m for i,m in ms.items() if not (i.startswith('A') and m['file'] in bfiles)}
ch={}
for f in checks:
    for l in open(f):
        r=json.loads(l); ch[r['id']]=r
files=collections.OrderedDict()
missed=[]
for i in sorted(ms):
    m=ms[i]; f=files.setdefault(m['file'], dict(file=m['file'],mutants=0,nobuild=0,killed=0,survive=0,caught=0,missed=0,pending=0))
    f['mutants']+=1
    if m['suite']=='nobuild': f['nobuild']+=1
    elif m['suite']=='killed': f['killed']+=1
    else:
        f['survive']+=1
        r=ch.get(i)
        if r is None or any(t.endswith(':2') or t.endswith(':124') for t in r['tried']) and not r['caught_by']: f['pending']+=1
        elif r['caught_by']: f['caught']+=1
        else:
            f['missed']+=1; missed.append(dict(id=i,file=m['file'],line=m['line'],op=m['op'],orig=m['orig'],tried=r['tried']))
tot=dict(mutants=0,nobuild=0,killed=0,survive=0,caught=0,missed=0,pending=0)
for f in files.values():
    for k in tot: tot[k]+=f[k]
json.dump(dict(mutants=tot['mutants'],files=sorted(files.values(),key=lambda f:f['file']),total=tot),open(V+'/mutants/auto-results.json','w'),indent=1)
open(V+'/mutants/auto-missed.jsonl','w').write(''.join(json.dumps(x,ensure_ascii=False)+'\n' for x in missed))
print(tot)

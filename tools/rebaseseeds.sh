#!/bin/bash
# tools/rebaseseeds.sh <scratch-worktree>: checks that every /verif/seeded/<id>/patch.diff applies to the worktree's HEAD with plain `git apply`;
# a patch that no longer applies because a later fix: commit touched neighbouring lines is re-created with a 3-way apply (the original is kept
# as patch.orig.diff). Prints what it did.
set -u
V="$(cd "$(dirname "$0")/.." && pwd)"   # the verification directory this script lives in (normally /verif)
WT="$1"
for D in $V/seeded/*/; do
  ID=$(basename "$D")
  if grep -q '"superseded_by"' "$D/meta.json"; then continue; fi
  git -C "$WT" checkout -q -- . ; git -C "$WT" reset -q --hard HEAD
  if git -C "$WT" apply --check "$D/patch.diff" 2>/dev/null; then continue; fi
  if git -C "$WT" apply --3way "$D/patch.diff" >/dev/null 2>&1 && [ -z "$(git -C "$WT" diff --name-only --diff-filter=U)" ]; then
    [ -f "$D/patch.orig.diff" ] || cp "$D/patch.diff" "$D/patch.orig.diff"
    git -C "$WT" diff HEAD > "$D/patch.diff"
    echo "$ID: re-created against $(git -C "$WT" log --format=%h -1)"
  else
    echo "$ID: DOES NOT APPLY (conflict)"
  fi
  git -C "$WT" reset -q --hard HEAD
done
